"""C12 - actor objectives have the documented value and gradient."""
from __future__ import annotations

import ast
import math
import random
import re

from ..loops import dotted
from ..nf import NF, Scope, Poly, parse_expr
from ..repo import Repo, loc, short, AnalysisError, positional_params, param_names, bind_call
from ..resolve import Resolver
from ..sem import same_ingredients, ingredient_tokens

BASIC_EXTRAS = {"sum", "mean", "max", "min", "maximum", "minimum", "abs", "square", "exp", "log", "sqrt", "q1", "q2", "stop_gradient", "squeeze", "axis", "jnp", "jax", "numpy", "lax",
                "tanh", "sigmoid", "softplus", "relu", "nnx", "nn"}
from ..sympath import enumerate_paths, PathEval
from .c05 import grad_sites

EXPLANATION = (
    "Each actor objective is normalised (def-use and callee inlining, squared errors as atoms) and compared, as a polynomial identity "
    "over its own parameters, with the documented formula written as a spec expression that is normalised by the same engine (the spec "
    "is written with the parameter names of the recorded signatures and follows renamed parameters). Two normal forms that differ are "
    "a violation only when the objective is built from exactly the documented quantities (same uninterpreted calls, other known "
    "functions) and differs in value at reproducible random points, where exp / log / min / max / clip / abs / squares / mean / sum "
    "are computed; equal values at every point are an equivalent spelling; anything else is not read (undecided). The "
    "gradient clauses are structural: the differentiated argument of every actor update is the actor parameter (argnums through the "
    "loss signature); weights, advantages, old log-probabilities and Q-values enter the differentiated function as plain arguments "
    "computed outside it (constants of the gradient by construction), which is checked per CFG path for the three policy-gradient "
    "callers. PPO: the ratio is exp(logp - logp_old) with logp_old computed once before the epoch loop from the same (observation, "
    "action); min/clip form decides the clipped-side zero gradient. SAC temperature: loss = mean(-alpha*(logp + target)), alpha = "
    "exp(log_alpha), differentiated w.r.t. the log_alpha module only; alpha() is compared with exp(log_alpha) also at points beyond the "
    "constant bounds of any clip / minimum / maximum it contains (numeric class-level constants read through self are the numbers): a "
    "saturated piece no longer follows log_alpha and has zero derivative, so the temperature loss cannot move alpha there. Clipped "
    "double-Q wrapper: __call__ and mean are evaluated on small concrete arrays in the two critic output conventions (N,) and (N,1) "
    "(array semantics of element-wise functions, reductions with axis / keepdims, concatenate / stack, squeeze / None-indexing) and "
    "must be the per-sample minimum / mean of the two heads in the heads' own shape."
)
TRUSTED = ["tfp log_prob/entropy implementations (C13 checks which parameters they receive)", "jnp.minimum/clip/exp semantics; nnx.value_and_grad(argnums)",
           "numpy broadcasting / axis / keepdims / concatenate / stack semantics of jax.numpy (re-implemented on small arrays for the shape worlds of R6)"]
RULES = {
    "R1-pseudo-loss": "pseudo-loss == -mean(w * log pi(a|o)); at the three callers the weights are computed outside the differentiated function, from the documented quantities, and the policy is the differentiated argument",
    "R2-ppo": "ppo_loss == -mean(min(rho*A, clip(rho,1-c,1+c)*A)) + 0.5*mean((R-V)^2) - 0.01*mean(H); rho = exp(logp - logp_old); logp_old fixed before the epoch loop from the same data",
    "R3-dpg": "deterministic policy gradient losses == -mean(Q(o, pi(o))) (DDPG/TD3, TD7-SALE, MR.Q incl. the pre-activation penalty); differentiated argument is the actor",
    "R4-sac": "actor loss == mean(alpha*log pi(a|o) - Q(o,a)), a ~ pi(o); temperature loss == mean(-alpha()*(log pi + target_entropy)), alpha() = exp(log_alpha), differentiated w.r.t. log_alpha only",
    "R5-value-shapes": "the PPO value term subtracts arrays of equal rank (no (N,)-(N,1) broadcast); the PPO and SAC actor objectives, evaluated on small arrays with a critic "
                       "that returns (N,) and one that returns (N,1), have the documented value (the critic's output is one value per sample in both conventions)",
    "R6-clipped-pair": "min Q / mean Q of the clipped double-Q wrapper (SAC, TD3, TD7 actor losses) is taken per sample: for both critic output conventions (N,) and (N,1), "
                       "__call__ returns minimum(q1(x), q2(x)) and mean returns 0.5*(q1(x) + q2(x)) in the heads' own shape (no reduction over the batch)",
}

# All specs, role tables and shape environments below are written with the parameter names of the RECORDED signatures
# (known_signatures.json); _renames() maps them to the names the analysed tree uses (a renamed parameter keeps its role).
LQ = "rl_blox.blox.losses."
FORMULAS = {
    LQ + "stochastic_policy_gradient_pseudo_loss": ("R1-pseudo-loss", "-jnp.mean(weight * policy.log_probability(observation, action))"),
    LQ + "deterministic_policy_gradient_loss": ("R3-dpg", "-q(jnp.concatenate((observation, policy(observation)), axis=-1)).mean()"),
    "rl_blox.algorithm.td7.deterministic_policy_gradient_loss_sale": (
        "R3-dpg", "-critic.mean(jnp.concatenate((observation, actor(observation, embedding.state_embedding(observation))), axis=-1), "
                  "zs=embedding.state_embedding(observation), zsa=embedding.state_action_embedding(jnp.concatenate((embedding.state_embedding(observation), "
                  "actor(observation, embedding.state_embedding(observation))), axis=-1))).mean()"),
    "rl_blox.algorithm.sac.sac_actor_loss": (
        "R4-sac", "(alpha * policy.log_probability(observations, policy.sample(observations, action_key)) - "
                  "q(jnp.concatenate((observations, policy.sample(observations, action_key)), axis=-1)).squeeze()).mean()"),
    "rl_blox.algorithm.sac.sac_exploration_loss": (
        "R4-sac", "(-alpha() * (policy.log_probability(observations, policy.sample(observations, action_key)) + target_entropy)).mean()"),
    "rl_blox.algorithm.ppo.ppo_loss": (
        "R2-ppo", "-jnp.mean(jnp.minimum(jnp.exp(actor.log_probability(observations, actions) - old_logps) * advantages, "
                  "jnp.clip(jnp.exp(actor.log_probability(observations, actions) - old_logps), 1 - clip, 1 + clip) * advantages)) "
                  "+ 0.5 * jnp.mean((returns - critic(observations)) ** 2) - 0.01 * actor.entropy(observations).mean()"),
}
MRQ_SPEC = "-q(encoder.encode_zsa(zs, policy.scale_output(policy.policy_net(zs)))).mean() + activation_weight * jnp.square(policy.policy_net(zs)).mean()"
# quantities that are documented as one number (not one value per sample): a mean may be taken before or after multiplying by them
SCALARS = {
    "rl_blox.algorithm.sac.sac_actor_loss": ["alpha"],
    "rl_blox.algorithm.sac.sac_exploration_loss": ["alpha()", "target_entropy"],
    "rl_blox.algorithm.ppo.ppo_loss": ["clip"],
    "rl_blox.algorithm.mrq.mrq_policy_loss": ["activation_weight"],
    "rl_blox.algorithm.actor_critic.actor_critic_policy_gradient": ["gamma"],
}
# (update routine, loss, actor parameter(s) of the loss)
ACTOR_SITES = {
    "rl_blox.algorithm.ddpg.ddpg_update_actor": (LQ + "deterministic_policy_gradient_loss", ["policy"]),
    "rl_blox.algorithm.td7.td7_update_actor": ("rl_blox.algorithm.td7.deterministic_policy_gradient_loss_sale", ["actor"]),
    "rl_blox.algorithm.sac.sac_update_actor": ("rl_blox.algorithm.sac.sac_actor_loss", ["policy"]),
    "rl_blox.algorithm.sac._update_entropy_coefficient": ("rl_blox.algorithm.sac.sac_exploration_loss", ["alpha"]),
    "rl_blox.algorithm.ppo.update_ppo": ("rl_blox.algorithm.ppo.ppo_loss", ["actor", "critic"]),
    "rl_blox.algorithm.reinforce.reinforce_gradient": (LQ + "stochastic_policy_gradient_pseudo_loss", ["policy"]),
    "rl_blox.algorithm.actor_critic.actor_critic_policy_gradient": (LQ + "stochastic_policy_gradient_pseudo_loss", ["policy"]),
    "rl_blox.algorithm.a2c.a2c_policy_gradient": (LQ + "stochastic_policy_gradient_pseudo_loss", ["policy"]),
}


def _known_names():
    from ..expand import load_known
    return load_known()


def _env(fn):
    return {p: Poly.atom(p, {p}, {p}) for p in param_names(fn)}


# ---- recorded parameter names -> names of the analysed tree ---------------------------------------------------------------------------
def _recorded(repo, q):
    from ..specialise import load_signatures
    rec = load_signatures().get(q)
    return list(rec) if rec else param_names(repo.func(q))


def _renames(repo, q) -> dict:
    """Recorded parameter name -> current parameter name of function ``q``.  A recorded name that still exists keeps itself (also
    when the parameters were reordered); recorded names that are gone are matched, in order, with the names that are new."""
    fn = repo.func(q)
    cur = param_names(fn)
    rec = _recorded(repo, q)
    gone = [r for r in rec if r not in cur]
    ren = {r: r for r in rec if r in cur}
    if gone:
        new = [c for c in cur if c not in rec]
        if len(new) != len(gone):
            a = fn.args
            pos = a.posonlyargs + a.args
            dflt = {x.arg for x in pos[len(pos) - len(a.defaults):]} | {x.arg for x, d in zip(a.kwonlyargs, a.kw_defaults) if d is not None}
            new = [c for c in new if c not in dflt]       # options added later are not renamed parameters
        if len(new) != len(gone):
            raise AnalysisError(f"{q}: the recorded parameters {gone} are gone and cannot be matched with the signature {cur} (unrecognised form)")
        ren.update(zip(gone, new))
    return ren


def _spec(text: str, ren: dict) -> ast.AST:
    """Spec expression (recorded names) as an expression over the current names."""
    e = parse_expr(text)
    for n in ast.walk(e):
        if isinstance(n, ast.Name) and n.id in ren:
            n.id = ren[n.id]
    return e


def _return_poly(nf, q, env):
    try:
        return nf.return_poly(q, env)
    except ValueError as e:
        raise AnalysisError(f"{q}: the returned value is not read ({e}) (unrecognised form)")


# ---- deciding "same value" ------------------------------------------------------------------------------------------------------------
# Equal normal forms: the same function.  Different normal forms are only evidence of a different value when the value that was
# read is made of exactly the documented quantities: then both sides are computed at random points (the functions below are
# computed, every other atom is a reproducible random quantity shared by both sides).  Equal at every point: another spelling of
# the documented value.  Different at some point: a witness of the violation.  Everything else is not read here (AnalysisError).
_UNARY = {"exp", "log", "abs", "sq", "mean", "sum", "zeros_like", "ones_like", "tanh", "sigmoid", "softplus", "relu"}
_REDUCE = {"max", "min", "amax", "amin"}
_BINARY = {"minimum", "maximum"}
_COMPUTED = _UNARY | _REDUCE | _BINARY | {"clip", "pow"}
_SCALAR_RESULT = {"std", "var", "median", "norm", "len"}
_CARRIERS = {"attr", "subscript", "proj", "T"}
KNOWN_OTHER = {"q1", "q2"}     # documented alternatives with another meaning (one critic instead of the clipped pair)
_N, _ROUNDS = 7, 6


class _NotComputable(Exception):
    pass


def _computed(nf, a):
    """(function, argument polys) when atom ``a`` is an application this rule computes, else None."""
    m = nf.meta.get(a)
    if not m or m.get("kws"):
        return None
    f, args = m.get("fn", ""), list(m.get("args", []))
    if any(x.elems is not None for x in args):
        return None
    if (f in _UNARY and len(args) == 1) or (f in _REDUCE and len(args) >= 1) or (f in _BINARY and len(args) == 2) or (f == "clip" and len(args) == 3) \
            or (f == "pow" and len(args) == 2 and args[1].is_const()):
        return f, args
    return None


def _reachable(nf, p, out=None) -> set:
    """Atoms of a normal form, including those inside the arguments of its applications."""
    out = set() if out is None else out
    if p.elems is not None:
        for x in p.elems:
            _reachable(nf, x, out)
        return out
    for a in p.atoms():
        if a in out:
            continue
        out.add(a)
        m = nf.meta.get(a)
        if m:
            for x in list(m.get("args", [])) + list(m.get("kws", {}).values()):
                if isinstance(x, Poly):
                    _reachable(nf, x, out)
    return out


def _is_name(a: str) -> bool:
    return all(part.isidentifier() for part in a.split("."))


def _only_documented_quantities(nf, got, wants):
    """Raises unless every atom of ``got`` is a documented quantity, a computed function, or a quantity that is known to be another
    one (the documented function applied to other arguments, a documented alternative).  Another carrier of possibly the same
    quantity - a subscript, an attribute, a call spelled with other keywords, an unknown function - is not evidence."""
    W = set()
    for w in wants:
        _reachable(nf, w, W)
    wcalls = {}
    for w in W:
        m = nf.meta.get(w)
        if m and _computed(nf, w) is None and m.get("fn") not in _CARRIERS:
            wcalls.setdefault(m.get("fn"), []).append(m)
    for g in sorted(_reachable(nf, got)):
        if g in W or _computed(nf, g) is not None:
            continue
        m = nf.meta.get(g)
        if m is None:
            if _is_name(g):
                continue     # a bare name: the ingredient test has admitted it
            raise AnalysisError(f"`{g[:60]}` is not a documented quantity")
        f = m.get("fn", "")
        if f in _CARRIERS or f in _COMPUTED:
            raise AnalysisError(f"`{g[:60]}` may be another way to read a documented quantity")
        if f in wcalls:
            vals = sorted(x.canon() for x in list(m.get("args", [])) + list(m.get("kws", {}).values()))
            for w in wcalls[f]:
                if (m.get("kws") or w.get("kws")) and vals == sorted(x.canon() for x in list(w.get("args", [])) + list(w.get("kws", {}).values())):
                    raise AnalysisError(f"`{g[:60]}` may be the documented call spelled with other keywords")
            continue         # the documented function applied to other arguments
        if f.split(".")[-1] in KNOWN_OTHER:
            continue
        raise AnalysisError(f"`{f[:40]}(...)` is not a documented building block")


def _ew(f, *xs):
    n = max((len(x) for x in xs if isinstance(x, list)), default=None)
    if n is None:
        return f(*xs)
    return [f(*[(x[i] if isinstance(x, list) else x) for x in xs]) for i in range(n)]


def _flat(x):
    return x if isinstance(x, list) else [x]


class _Point:
    """One random point: every quantity that is not computed gets a reproducible random value - one value per sample, or one number
    for the documented scalars - that depends on its canonical text only (the same quantity has the same value on both sides)."""

    def __init__(self, nf, seed, scalars=(), scale=None):
        self.nf, self.seed, self.scalars, self.memo, self.scale = nf, seed, set(scalars), {}, dict(scale or {})

    def leaf(self, text):
        r = random.Random(f"c12|{self.seed}|{text}")
        m = self.nf.meta.get(text) or {}
        one = text in self.scalars or (m.get("fn", "") in _SCALAR_RESULT and not m.get("kws") and len(m.get("args", [])) == 1)
        k = self.scale.get(text, 1.0)
        vals = [r.choice((-1.0, 1.0)) * r.uniform(0.3, 1.7) * k for _ in range(_N)]
        return vals[0] if one else vals

    def poly(self, p):
        if p.elems is not None:
            raise _NotComputable("tuple")
        tot = 0.0
        for mono, c in p.terms.items():
            t = float(c)
            for a, k in mono:
                t = _ew(lambda x, y: x * y ** k, t, self.atom(a))
            tot = _ew(lambda x, y: x + y, tot, t)
        return tot

    def atom(self, a):
        if a not in self.memo:
            self.memo[a] = self._atom(a)
        return self.memo[a]

    def _atom(self, a):
        c = _computed(self.nf, a)
        if c is None:
            return self.leaf(a)
        f, args = c
        v = [self.poly(x) for x in args]
        if f == "exp":
            return _ew(math.exp, v[0])
        if f == "log":
            if min(_flat(v[0])) <= 0:
                raise _NotComputable("log")
            return _ew(math.log, v[0])
        if f == "abs":
            return _ew(abs, v[0])
        if f in ("tanh", "sigmoid", "softplus", "relu"):
            return _ew({"tanh": math.tanh, "sigmoid": lambda x: 1.0 / (1.0 + math.exp(-x)), "softplus": lambda x: math.log1p(math.exp(x)), "relu": lambda x: max(x, 0.0)}[f], v[0])
        if f == "sq":
            return _ew(lambda x: x * x, v[0])
        if f == "mean":
            return sum(_flat(v[0])) / len(_flat(v[0]))
        if f == "sum":
            return sum(_flat(v[0]))
        if f == "zeros_like":
            return _ew(lambda x: 0.0, v[0])
        if f == "ones_like":
            return _ew(lambda x: 1.0, v[0])
        if f in _REDUCE and len(v) == 1:
            return (max if f in ("max", "amax") else min)(_flat(v[0]))
        if f in _REDUCE or f in _BINARY:
            return _ew(max if f in ("max", "amax", "maximum") else min, *v)
        if f == "clip":     # canonical form: clip(a, b, hi) == minimum(maximum(a, b), hi)
            return _ew(lambda x, y, z: min(max(x, y), z), *v)
        if f == "pow":
            e = float(args[1].const_value())
            if e != int(e) and min(_flat(v[0])) <= 0:
                raise _NotComputable("pow")
            return _ew(lambda x: x ** e, v[0])
        raise _NotComputable(f)


_SELECT = {"clip", "minimum", "maximum", "min", "max", "amin", "amax"}
_BEYOND = 4.0      # leaves are drawn from +-[0.3, 1.7] * _BEYOND * |k|: beyond the bound k on both sides
_FAR = 30.0        # a bound of larger magnitude lies where exp() leaves every float range: such pieces are not visited (not decided)


def _bound_scales(nf, polys) -> dict:
    """Leaf -> magnitude.  A selection (clip / minimum / maximum) between a quantity and a numeric constant k is a piecewise
    function: the piece beyond k is a different function of the quantity (a constant: zero derivative).  The random points of
    the base rounds have magnitude ~1 and never visit that piece when |k| is larger, so the leaves the compared quantity is
    computed from are additionally drawn with a magnitude beyond the largest such |k| (both signs occur at every point)."""
    out = {}
    seen = set()
    for p in polys:
        for a in _reachable(nf, p):
            if a in seen:
                continue
            seen.add(a)
            c = _computed(nf, a)
            if c is None or c[0] not in _SELECT or len(c[1]) < 2:
                continue
            ks = [abs(float(x.const_value())) for x in c[1] if x.is_const()]
            ks = [k for k in ks if k > 0.25]
            rest = [x for x in c[1] if not x.is_const()]
            if not ks or not rest:
                continue
            if max(ks) > _FAR:
                raise AnalysisError(f"the piece beyond the constant bound {max(ks):g} of a clip / minimum / maximum is not visited")
            for x in rest:
                for leaf in _reachable(nf, x):
                    if _computed(nf, leaf) is None:
                        out[leaf] = max(out.get(leaf, 1.0), _BEYOND * max(ks))
    return out


def _witness(nf, got, want, scalars):
    """None when both normal forms have the same value at every random point, else a description of one point where they differ."""
    for seed in range(_ROUNDS):
        pt = _Point(nf, seed, scalars)
        try:
            g, w = pt.poly(got), pt.poly(want)
        except (_NotComputable, ZeroDivisionError, OverflowError, ValueError, TypeError) as e:
            raise AnalysisError(f"the value cannot be computed ({type(e).__name__}: {e})")
        d = _ew(lambda x, y: (x, y), g, w)
        for x, y in _flat(d) if isinstance(d, list) else [d]:
            if not (math.isfinite(x) and math.isfinite(y)):
                raise AnalysisError("the value cannot be computed (not finite)")
            if abs(x - y) > 1e-9 * max(1.0, abs(x), abs(y)):
                return f"{x:.6g} instead of {y:.6g} at a random point of the documented quantities"
    # the pieces of selections with constant bounds that points of magnitude ~1 do not reach (a difference found above stands)
    scale = _bound_scales(nf, [got, want])
    if scale:
        visited = 0
        for seed in range(_ROUNDS):
            pt = _Point(nf, f"beyond{seed}", scalars, scale)
            try:
                g, w = pt.poly(got), pt.poly(want)
            except (_NotComputable, ZeroDivisionError, OverflowError, ValueError, TypeError):
                continue
            d = _ew(lambda x, y: (x, y), g, w)
            pairs = _flat(d) if isinstance(d, list) else [d]
            if not all(math.isfinite(x) and math.isfinite(y) for x, y in pairs):
                continue
            visited += 1
            for x, y in pairs:
                if abs(x - y) > 1e-7 * max(1.0, abs(x), abs(y)):
                    return (f"{x:.6g} instead of {y:.6g} at a point where {sorted(a for a in pt.memo if a in scale)[:2]} lie beyond the constant bound of a clip / minimum / maximum "
                            f"(the saturated piece is a constant there: its derivative is zero)")
                if abs(x - y) > 1e-6 * max(abs(x), abs(y)):
                    raise AnalysisError("beyond the constant bound of a clip / minimum / maximum the values are too small to be compared")
        if not visited:
            raise AnalysisError("the value cannot be computed beyond the constant bound of a clip / minimum / maximum")
    return None


_UNREAD = re.compile(r"φ\(|⟦|λ\[|__i\d+\b")


def _same_value(nf, site, what, got, wants, scalars=(), extras=BASIC_EXTRAS):
    """(True, note) when ``got`` is one of the documented values ``wants`` (equal normal form, or equal value at every random point);
    (False, witness) when it is made of the documented quantities and has another value; AnalysisError when it is not read."""
    if any(got == w for w in wants):
        return True, ""
    c = got.canon()
    try:
        if got.elems is not None or _UNREAD.search(c):
            raise AnalysisError("it contains a part that was not read")
        allowed = set(extras)
        for w in wants:
            allowed |= ingredient_tokens(w)
        extra = ingredient_tokens(got) - allowed
        if extra:
            raise AnalysisError(f"{sorted(extra)[:4]} are not documented building blocks")
        _only_documented_quantities(nf, got, wants)
        first = None
        for w in wants:
            r = _witness(nf, got, w, scalars)
            if r is None:
                return True, f"another spelling of `{w.canon()[:100]}` (equal at {_ROUNDS}x{_N} random points)"
            first = first or f"{r}; difference of the normal forms `{(got - w).canon()[:160]}`"
        return False, first
    except AnalysisError as e:
        raise AnalysisError(f"{site}: {what} `{c[:120]}` is not compared with the documented value: {e} (unrecognised form)")


def _decide(ck, nf, rule, site, key, what, got, wants, why, where, scalars=(), extras=BASIC_EXTRAS, shown=None):
    ok, note = _same_value(nf, site, what, got, wants, scalars, extras)
    ck.ob(rule, site, key, ok, (shown or got.canon()[:170]) + (f"   [{note}]" if ok and note else ""), "" if ok else f"{why}: {note}", where)
    return ok


def check_formula(ck, repo, nf, q, rule, spec):
    fn = repo.func(q)
    mi = fn._module
    env = _env(fn)
    ren = _renames(repo, q)
    got = _return_poly(nf, q, env)
    if got.elems is not None:
        got = got.elems[0]
    sc0 = Scope(None, mi, env, q)
    want = nf.poly(_spec(spec, ren), sc0, None)
    scalars = {nf.poly(_spec(s, ren), sc0, None).canon() for s in SCALARS.get(q, ())}
    # functions with known, different meaning may replace documented ones (sum for mean, maximum for minimum, one critic for both);
    # anything else - in particular size-like quantities that could rebuild a mean from a sum - leaves the comparison undecided
    _decide(ck, nf, rule, q, "objective-identity", "objective", got, [want], "objective differs from the documented one", loc(mi, fn), scalars)
    return got


def _differentiated(q) -> list:
    """Recorded names of the parameters of loss ``q`` with respect to which it is differentiated."""
    out = []
    for lq, ps in list(ACTOR_SITES.values()) + [("rl_blox.algorithm.mrq.mrq_policy_loss", ["policy"])]:
        if lq == q:
            out += [p for p in ps if p not in out]
    return out


def check_gradient_path(ck, repo, nfg, q, rule):
    """The documented objectives contain no stop_gradient: every occurrence of the differentiated parameter contributes to the
    gradient.  A stop_gradient around a quantity that is computed from the differentiated parameter (directly or in an inlined
    helper) removes a documented part of the gradient while the value stays the same.  ``nfg`` tracks stop_gradient (atoms ⊥x)."""
    fn = repo.func(q)
    ren = _renames(repo, q)
    actors = {ren[p] for p in _differentiated(q)}
    got = _return_poly(nfg, q, _env(fn))
    if got.elems is not None:
        got = got.elems[0]
    blocked = sorted(a for a in _reachable(nfg, got) if a.startswith("⊥") and nfg.atom_deps(a) & actors)
    ck.ob(rule, q, "gradient-not-blocked", not blocked, f"stop_gradient on quantities computed from {sorted(actors)}: {[b[1:70] for b in blocked[:3]] or 'none'}",
          "" if not blocked else f"the gradient with respect to {sorted(actors)} does not pass through `{blocked[0][1:90]}` (stop_gradient), the documented objective differentiates every occurrence", loc(fn._module, fn))


# ---- one more spelling of a call: signature binding ----------------------------------------------------------------------------------
class _NFSig(NF):
    """The normal-form engine, with keywords of a method call on an ANNOTATED PARAMETER bound by the method's signature:
    `encoder.encode_zsa(zs=z, action=a)` with `encoder: ModelBasedEncoder` is `encoder.encode_zsa(z, a)`.  The receiver must be a
    parameter of the function that is being read (never rebound there), its annotation a class of the package that has the method,
    and the class and every subclass of it in the package must agree on the positional parameters (the object may be any of them)."""

    def _sig_of(self, sc, at, recv: str, meth: str):
        cfg = getattr(sc, "cfg", None)
        fn = getattr(cfg, "fn", None)
        if fn is None or at is None or recv == "self":
            return None
        ds = cfg.defs_of(at, recv)
        if len(ds) != 1 or ds[0].kind != "param":
            return None
        ann = next((a.annotation for a in fn.args.posonlyargs + fn.args.args + fn.args.kwonlyargs if a.arg == recv), None)
        if not isinstance(ann, (ast.Name, ast.Attribute)):
            return None
        try:
            cq = self.repo.resolve_expr(getattr(fn, "_module", None) or sc.mi, ann)
            if not (cq and cq.startswith(self.repo.PKG + ".")):
                return None
            self.repo.cls(cq)
            sigs = set()
            for c in [cq] + list(self.repo.subclasses(cq)):
                m = self.repo.method(c, meth)
                if m is None:
                    return None
                a = m[1].args
                if a.vararg or a.kwarg or a.posonlyargs or any(isinstance(d, ast.Name) and d.id in ("staticmethod", "classmethod", "property") for d in m[1].decorator_list):
                    return None
                sigs.add(tuple(x.arg for x in a.args[1:]))
        except Exception:
            return None
        return list(sigs.pop()) if len(sigs) == 1 else None

    def _args(self, e, sc, at, depth):
        args, kws = super()._args(e, sc, at, depth)
        f = e.func
        if kws and "**" not in kws and isinstance(f, ast.Attribute) and isinstance(f.value, ast.Name) and not any(isinstance(a, ast.Starred) for a in e.args):
            ps = self._sig_of(sc, at, f.value.id, f.attr)
            if ps is not None and len(args) <= len(ps) and all(k in ps[len(args):] for k in kws):
                args, kws = list(args), dict(kws)
                while len(args) < len(ps) and ps[len(args)] in kws:
                    args.append(kws.pop(ps[len(args)]))
        return args, kws


# ---- partial application of the differentiated loss -----------------------------------------------------------------------------------
def _partial_call(repo, mi, e):
    return isinstance(e, ast.Call) and isinstance(e.func, (ast.Name, ast.Attribute)) and repo.resolve_expr(mi, e.func) == "functools.partial"


def _through_partial(repo, nf, fn, mi, site):
    """partial(L, *a, **k)(*b, **k2) is L(*a, *b, **k, **k2): a gradient site whose differentiated function is such a partial
    application (written in place, or bound once to a local name) is rewritten in terms of L - loss, argnums in L's positions and the
    application with all arguments.  The partial's arguments are evaluated where it is made: they are read at the application only
    when the same definitions of every name in them reach both places (else the site is left as it is: not read)."""
    loss = site["loss"]
    cfg = nf.cfg_of(fn)
    app = getattr(site["app"], "_original", site["app"])
    try:
        at = cfg.node_of(app).id
    except (KeyError, AttributeError):
        return site
    if isinstance(loss, ast.Name):
        ds = cfg.defs_of(at, loss.id)
        if len(ds) != 1 or ds[0].kind != "assign" or not _partial_call(repo, mi, ds[0].value):
            return site
        pc, made = ds[0].value, ds[0].node
    elif _partial_call(repo, mi, loss):
        tr = site.get("transform")
        try:
            made = cfg.node_of(tr).id if tr is not None else at
        except (KeyError, AttributeError):
            return site
        pc = loss
    else:
        return site
    if not pc.args or any(isinstance(a, ast.Starred) for a in pc.args) or any(k.arg is None for k in pc.keywords) \
            or any(isinstance(a, ast.Starred) for a in site["app"].args) or any(k.arg is None for k in site["app"].keywords):
        return site
    inner, pargs = pc.args[0], list(pc.args[1:])
    if not isinstance(inner, (ast.Name, ast.Attribute)):
        return site
    lq = repo.resolve_expr(mi, inner)
    if not (lq and lq.startswith(repo.PKG + ".") and repo.has(lq)):
        return site
    try:
        lp = positional_params(repo.func(lq))
    except Exception:
        return site
    pk = {k.arg for k in pc.keywords}
    ak = {k.arg for k in site["app"].keywords}
    n_app = len(site["app"].args)
    if len(pargs) + n_app > len(lp) or (pk & ak) or any(k in lp[:len(pargs) + n_app] for k in pk | ak):
        return site
    if made != at:
        for x in [n for a in pargs + [k.value for k in pc.keywords] for n in ast.walk(a) if isinstance(n, ast.Name)]:
            if {(d.node, d.name) for d in cfg.defs_of(made, x.id)} != {(d.node, d.name) for d in cfg.defs_of(at, x.id)}:
                return site
    nums = [k + len(pargs) for k in site["argnums"]]
    if any(k >= len(pargs) + n_app for k in nums):
        return site
    new_args = pargs + list(site["app"].args)
    syn = ast.copy_location(ast.Call(func=site["app"].func, args=new_args, keywords=list(pc.keywords) + list(site["app"].keywords)), site["app"])
    syn._parent = getattr(site["app"], "_parent", None)
    syn._original = app
    s2 = dict(site)
    s2.update({"app": syn, "loss": inner, "argnums": nums, "diff": [new_args[j] for j in nums], "partial": pc})
    return s2


def _grad_sites(repo, nf, fn, mi):
    return [_through_partial(repo, nf, fn, mi, s) for s in grad_sites(repo, fn, mi)]


def run(ck, repo: Repo, tier: str):
    nf = _NFSig(repo, inline_depth=4)
    nf.expand_squares = False
    res = Resolver(repo)
    nfg = _NFSig(repo, inline_depth=4)
    nfg.expand_squares = False
    nfg.track_sg = True
    for q, (rule, spec) in FORMULAS.items():
        ck.guard(check_formula, ck, repo, nf, q, rule, spec)
        ck.guard(check_gradient_path, ck, repo, nfg, q, rule)
    ck.guard(check_gradient_path, ck, repo, nfg, "rl_blox.algorithm.mrq.mrq_policy_loss", "R3-dpg")
    ck.floor("objective-formulas", len(FORMULAS), 6)

    def _section_1():
        # ---- MR.Q policy loss (tuple result, scale_output helper) ---------------------------------------------
        q = "rl_blox.algorithm.mrq.mrq_policy_loss"
        fn = repo.func(q)
        env = _env(fn)
        ren = _renames(repo, q)
        got = _return_poly(nf, q, env)
        ck.need(got.elems is not None, f"{q}: result is not a tuple (unrecognised form)")
        sc0 = Scope(None, fn._module, env, q)
        want = nf.poly(_spec(MRQ_SPEC, ren), sc0, None)
        scalars = {nf.poly(_spec(s, ren), sc0, None).canon() for s in SCALARS.get(q, ())}
        _decide(ck, nf, "R3-dpg", q, "objective-identity", "objective", got.elems[0], [want], "differs from -mean(q(zsa(zs, pi(zs)))) + w*mean(pre-activation^2)", loc(fn._module, fn), scalars)
    ck.guard(_section_1)

    def _section_2():
        # ---- EntropyCoefficient ------------------------------------------------------------------------------------
        cq = "rl_blox.algorithm.sac.EntropyCoefficient"
        m = repo.method(cq, "__call__")
        ck.need(m is not None, "EntropyCoefficient.__call__ not found")
        owner, f0 = m
        f0._module = repo.cls(owner)._module
        f = _with_class_constants(repo, cq, f0)       # `self.BOUND` with `BOUND = <number>` in the class body reads that number
        qual = f"{cq}.__call__"
        cfg = nf.cfg_of(f)
        env = {"self": Poly.atom("self", {"self"}, {"self"})}
        sc = Scope(cfg, f._module, env, qual, self_class=cq)
        sc.inline_self_attrs = False
        rets = [n for n in cfg.nodes if n.kind == "stmt" and isinstance(n.ast, ast.Return) and n.ast.value is not None]
        ck.need(len(rets) == 1, f"{qual}: {len(rets)} return statements (unrecognised form)")
        got = nf.poly(rets[0].ast.value, sc, rets[0].id)
        sc0 = Scope(None, f._module, env, qual, self_class=cq)
        sc0.inline_self_attrs = False
        # the three ways to read the array of an nnx.Param
        wants = [nf.poly(parse_expr(t), sc0, None) for t in ("jnp.exp(self.log_alpha.value)", "jnp.exp(self.log_alpha[...])", "jnp.exp(self.log_alpha)")]
        # alpha() is documented for every value of the parameter: a clip / minimum / maximum between log_alpha and a constant is
        # compared beyond the constant as well (there alpha() no longer follows log_alpha and the temperature gradient is zero)
        _decide(ck, nf, "R4-sac", qual, "alpha-is-exp-log-alpha", "alpha()", got, wants, "alpha must be exp(log_alpha) for every value of the parameter (positive, trained in log space; "
                "the temperature loss moves alpha through d alpha / d log_alpha = alpha > 0)", loc(f0._module, f0), extras=BASIC_EXTRAS | {"clip"}, shown=f"return {got.canon()[:120]}")
    ck.guard(_section_2)

    def _site(uq, lq, actor_params):
        # ---- differentiated argument is the actor ---------------------------------------------------------------------
        fn = repo.func(uq)
        mi = fn._module
        sites = _grad_sites(repo, nf, fn, mi)
        ck.need(len(sites) == 1, f"{uq}: expected one gradient site, found {len(sites)}")
        s = sites[0]
        got_loss = repo.resolve_expr(mi, s["loss"]) if isinstance(s["loss"], (ast.Name, ast.Attribute)) else None
        okl = got_loss == lq
        if not okl and (got_loss is None or got_loss not in _known_names()):
            # a new wrapper / adapter around the loss: which objective is differentiated, and with respect to what, is not read here
            raise AnalysisError(f"{uq}: differentiates `{short(s['loss'], 50)}`, not the documented loss function itself (unrecognised form)")
        rule = FORMULAS.get(lq, ("R3-dpg",))[0]
        ck.ob(rule, uq, "differentiates-documented-loss", okl, f"value_and_grad({short(s['loss'])})", "" if okl else f"documented objective is {lq.rsplit('.', 1)[1]}", loc(mi, s["app"]))
        if not okl:
            return
        lfn = repo.func(lq)
        lp = positional_params(lfn)
        lren = _renames(repo, lq)
        diffp = [lp[k] if isinstance(k, int) and 0 <= k < len(lp) else None for k in s["argnums"]]
        if None in diffp:
            raise AnalysisError(f"{uq}: argnums={s['argnums']} do not name positional parameters of {lq.rsplit('.', 1)[1]}{tuple(lp)} (unrecognised form)")
        wantp = [lren[p] for p in actor_params]
        ok = sorted(diffp) == sorted(wantp)
        ck.ob(rule, uq, "gradient-reaches-actor-only", ok, f"argnums={s['argnums']} -> parameters {diffp} of {lq.rsplit('.', 1)[1]}",
              "" if ok else f"the objective must be differentiated with respect to {wantp} only", loc(mi, s["app"]))
        # the arguments are bound to the loss parameters by its signature: role transfer
        _role_transfer(ck, repo, nf, uq, fn, lq, _bind_app(uq, s["app"], lfn), s, rule)

    for uq, (lq, actor_params) in ACTOR_SITES.items():
        ck.guard(_site, uq, lq, actor_params)
    ck.guard(_pg_weights, ck, repo, nf)
    ck.guard(_a2c_normalised, ck, repo, nf)
    ck.guard(_ppo_update, ck, repo, nf)
    ck.guard(_value_shapes, ck, repo)
    _value_worlds(ck, repo)
    _clipped_pair(ck, repo)


# ---- values with shapes: the two critic output conventions ---------------------------------------------------------------------------
# The random points above are one number per sample.  Where the documented statement is about SHAPES - a critic may return (N,) or
# (N,1) and min Q / mean Q must stay one value per sample in either case - the value is computed on small concrete arrays instead:
# the same normal form, evaluated with the array semantics of the numpy / jax.numpy functions it is made of (element-wise functions
# with broadcasting, reductions with axis / keepdims, concatenate / stack, squeeze / ravel / expand_dims / None-indexing).  A result
# whose shape or entries differ from the documented per-sample value in one of the conventions is a witness; anything the evaluator
# does not compute (unknown function, shapes that do not broadcast) is not read.
import itertools


class _Arr:
    __slots__ = ("shape", "data")

    def __init__(self, shape, data):
        self.shape, self.data = tuple(shape), list(data)

    def indices(self):
        return itertools.product(*[range(n) for n in self.shape])

    def at(self, ix):
        off = 0
        for n, i in zip(self.shape, ix):
            off = off * n + i
        return self.data[off]


def _a_scalar(x):
    return _Arr((), [float(x)])


def _a_broadcast_shape(shapes):
    r = max(len(s_) for s_ in shapes)
    out = []
    for i in range(r):
        d = 1
        for s_ in shapes:
            j = i - (r - len(s_))
            x = s_[j] if j >= 0 else 1
            if x != 1:
                if d not in (1, x):
                    raise _NotComputable(f"shapes {shapes} do not broadcast")
                d = x
        out.append(d)
    return tuple(out)


def _a_map(f, *xs):
    shp = _a_broadcast_shape([x.shape for x in xs])
    data = []
    for ix in itertools.product(*[range(n) for n in shp]):
        vals = []
        for x in xs:
            sub = ix[len(shp) - len(x.shape):]
            vals.append(x.at(tuple(0 if n == 1 else i for n, i in zip(x.shape, sub))))
        data.append(f(*vals))
    return _Arr(shp, data)


def _a_axes(x, axes):
    r = len(x.shape)
    if axes is None:
        return tuple(range(r))
    out = []
    for a in axes:
        if not -r <= a < r:
            raise _NotComputable(f"axis {a} of an array of rank {r}")
        out.append(a % r)
    return tuple(out)


def _a_reduce(f, x, axes, keep):
    axes = _a_axes(x, axes)
    full = [1 if i in axes else n for i, n in enumerate(x.shape)]
    groups = {}
    for ix in x.indices():
        groups.setdefault(tuple(0 if i in axes else v for i, v in enumerate(ix)), []).append(x.at(ix))
    data = [f(groups[k]) for k in itertools.product(*[range(n) for n in full])]
    return _Arr(full if keep else [n for i, n in enumerate(full) if i not in axes], data)


def _a_join(parts, axis, new_axis):
    """concatenate (new_axis False) / stack (new_axis True) of arrays along ``axis``."""
    if not parts:
        raise _NotComputable("empty join")
    if new_axis:
        if any(p.shape != parts[0].shape for p in parts):
            raise _NotComputable("stack of different shapes")
        r = len(parts[0].shape) + 1
        if not -r <= axis < r:
            raise _NotComputable("stack axis")
        axis %= r
        parts = [_Arr(p.shape[:axis] + (1,) + p.shape[axis:], p.data) for p in parts]
    r = len(parts[0].shape)
    if r == 0 or any(len(p.shape) != r for p in parts) or not -r <= axis < r:
        raise _NotComputable("concatenate of different ranks / of scalars")
    axis %= r
    if any(p.shape[:axis] + p.shape[axis + 1:] != parts[0].shape[:axis] + parts[0].shape[axis + 1:] for p in parts):
        raise _NotComputable("concatenate of incompatible shapes")
    shape = list(parts[0].shape)
    shape[axis] = sum(p.shape[axis] for p in parts)
    data = []
    for ix in itertools.product(*[range(n) for n in shape]):
        k = ix[axis]
        for p in parts:
            if k < p.shape[axis]:
                data.append(p.at(ix[:axis] + (k,) + ix[axis + 1:]))
                break
            k -= p.shape[axis]
    return _Arr(shape, data)


def _a_index(x, text):
    """x[...] for indices made of `...`, `:`, None and integers."""
    toks = ["..." if t.strip() == "Ellipsis" else t.strip() for t in text.split(",")]
    if toks.count("...") > 1 or any(t not in ("...", ":", "None") and not re.fullmatch(r"-?\d+", t) for t in toks):
        raise _NotComputable(f"index [{text}]")
    used = sum(1 for t in toks if t not in ("...", "None"))
    if used > len(x.shape):
        raise _NotComputable(f"index [{text}] of an array of rank {len(x.shape)}")
    if "..." in toks:
        i = toks.index("...")
        toks = toks[:i] + [":"] * (len(x.shape) - used) + toks[i + 1:]
    else:
        toks = toks + [":"] * (len(x.shape) - used)
    shape, pick, ax = [], [], 0          # pick: per source axis either None (kept) or the integer chosen
    for t in toks:
        if t == "None":
            shape.append(1)
        elif t == ":":
            shape.append(x.shape[ax])
            pick.append(None)
            ax += 1
        else:
            k = int(t)
            if not -x.shape[ax] <= k < x.shape[ax]:
                raise _NotComputable(f"index {k} of an axis of length {x.shape[ax]}")
            pick.append(k % x.shape[ax])
            ax += 1
    kept = [i for i, p_ in enumerate(pick) if p_ is None]
    src_shape = [x.shape[i] for i in kept]
    data = []
    for ix in itertools.product(*[range(n) for n in src_shape]):
        full = list(pick)
        for i, v in zip(kept, ix):
            full[i] = v
        data.append(x.at(tuple(full)))
    return _Arr(shape, data)


_A_UNARY = {"exp": math.exp, "log": math.log, "abs": abs, "tanh": math.tanh, "sq": lambda v: v * v, "sigmoid": lambda v: 1.0 / (1.0 + math.exp(-v)),
            "softplus": lambda v: math.log1p(math.exp(v)), "relu": lambda v: max(v, 0.0), "zeros_like": lambda v: 0.0, "ones_like": lambda v: 1.0, "negative": lambda v: -v}
_A_REDUCE = {"min": min, "max": max, "amin": min, "amax": max, "sum": sum, "mean": lambda v: sum(v) / len(v)}

# every function name the array evaluator below carries out itself
_A_COMPUTED = set(_A_UNARY) | set(_A_REDUCE) | {"pow", "minimum", "maximum", "clip", "concatenate", "concat", "stack", "hstack", "vstack", "squeeze", "ravel", "flatten", "reshape",
                                                "expand_dims", "subscript", "T", "Lt", "LtE", "where", "attr", "proj"}


class _ArrayPoint:
    """Evaluates a normal form on concrete small arrays.  ``leaf(atom, meta)`` supplies the arrays of the quantities that are not
    computed (None: the quantity is not known here -> not computable)."""

    def __init__(self, nf, leaf):
        self.nf, self.leaf, self.memo = nf, leaf, {}

    def poly(self, p):
        if p.elems is not None:
            raise _NotComputable("tuple")
        tot = _a_scalar(0.0)
        for mono, c in p.terms.items():
            t = _a_scalar(float(c))
            for a, k in mono:
                t = _a_map(lambda x, y, k=k: x * y ** k, t, self.atom(a))
            tot = _a_map(lambda x, y: x + y, tot, t)
        return tot

    def atom(self, a):
        if a not in self.memo:
            self.memo[a] = self._atom(a)
        return self.memo[a]

    def _int(self, p, what):
        if not (p.elems is None and p.is_const() and float(p.const_value()) == int(p.const_value())):
            raise _NotComputable(f"{what} is not an integer literal")
        return int(p.const_value())

    def _axis(self, m, rest):
        """(axes or None, keepdims) of a reduction from its keywords / the positional argument after the array."""
        kws = dict(m.get("kws", {}))
        ax = kws.pop("axis", None)
        keep = kws.pop("keepdims", None)
        if kws or len(rest) > 1 or (rest and ax is not None):
            raise _NotComputable("arguments of the reduction")
        ax = rest[0] if rest else ax
        if ax is not None and ax.canon() == "None":
            ax = None
        if ax is not None:
            ax = tuple(self._int(x, "axis") for x in ax.elems) if ax.elems is not None else (self._int(ax, "axis"),)
        return ax, bool(self._int(keep, "keepdims")) if keep is not None else False

    def _atom(self, a):
        m = self.nf.meta.get(a)
        v = self.leaf(a, m)
        if v is not None:
            return v
        if not m:
            raise _NotComputable(f"`{a[:50]}` is not a known quantity")
        f = m.get("fn", "").split(".")[-1]
        args, kws = list(m.get("args", [])), m.get("kws", {})
        if f in _A_UNARY and len(args) == 1 and not kws:
            return _a_map(_A_UNARY[f], self.poly(args[0]))
        if f == "pow" and len(args) == 2 and not kws and args[1].is_const():
            e = float(args[1].const_value())
            return _a_map(lambda x: x ** e, self.poly(args[0]))
        if f in ("minimum", "maximum") and len(args) >= 2 and not kws:
            return _a_map(lambda *xs: (min if f == "minimum" else max)(xs), *[self.poly(x) for x in args])
        if f == "clip" and len(args) == 3 and not kws:
            return _a_map(lambda x, y, z: min(max(x, y), z), *[self.poly(x) for x in args])
        if f in _A_REDUCE and args and args[0].elems is None:
            rest = args[1:]
            if f in ("min", "max") and rest and not kws:
                # builtin min(a, b) and jnp.min(x, axis) share one (argument-sorted) form: an integer literal next to one array is the axis
                ints = [x for x in args if x.elems is None and x.is_const()]
                arrs = [x for x in args if not (x.elems is None and x.is_const())]
                if len(ints) != 1 or len(arrs) != 1:
                    raise _NotComputable(f"{f} of several values")
                args, rest = arrs, ints
            ax, keep = self._axis(m, rest)
            return _a_reduce(_A_REDUCE[f], self.poly(args[0]), ax, keep)
        if f in ("concatenate", "concat", "stack", "hstack", "vstack") and args and args[0].elems is not None:
            parts = [self.poly(x) for x in args[0].elems]
            kw = dict(kws)
            ax = kw.pop("axis", args[1] if len(args) == 2 else None)
            if kw or len(args) > 2 or (f in ("hstack", "vstack") and ax is not None):
                raise _NotComputable(f"arguments of {f}")
            if f == "hstack":
                axis = 0 if parts and len(parts[0].shape) <= 1 else 1
                parts = [p if p.shape else _Arr((1,), p.data) for p in parts]
            elif f == "vstack":
                axis = 0
                parts = [p if len(p.shape) >= 2 else _Arr((1,) + (p.shape or (1,)), p.data) for p in parts]
            else:
                axis = 0 if ax is None else self._int(ax, "axis")
            return _a_join(parts, axis, f == "stack")
        if f == "squeeze" and args:
            x = self.poly(args[0])
            ax, _ = self._axis(m, args[1:])
            if ax is None:
                return _Arr([n for n in x.shape if n != 1], x.data)
            ax = _a_axes(x, ax)
            if any(x.shape[i] != 1 for i in ax):
                raise _NotComputable("squeeze of an axis longer than 1")
            return _Arr([n for i, n in enumerate(x.shape) if i not in ax], x.data)
        if f in ("ravel", "flatten") and len(args) == 1 and not kws:
            x = self.poly(args[0])
            return _Arr((len(x.data),), x.data)
        if f == "reshape" and len(args) == 2 and not kws:
            x = self.poly(args[0])
            like = args[1].single_atom() if args[1].elems is None else None
            lm = self.nf.meta.get(like) if like else None
            if lm and lm.get("fn") == "attr" and like.endswith(".shape") and len(lm.get("args", [])) == 1 and like == lm["args"][0].canon() + ".shape":
                tgt = list(self.poly(lm["args"][0]).shape)          # x.reshape(y.shape): the shape y has in this world
                if not tgt:
                    raise _NotComputable("reshape to the shape of a scalar")
            else:
                tgt = [self._int(t, "shape") for t in (args[1].elems if args[1].elems is not None else [args[1]])]
            if tgt.count(-1) > 1 or any(t < -1 or t == 0 for t in tgt):
                raise _NotComputable("reshape target")
            known = math.prod(t for t in tgt if t != -1)
            if len(x.data) % known or (-1 not in tgt and known != len(x.data)):
                raise _NotComputable("reshape to another size")
            return _Arr([len(x.data) // known if t == -1 else t for t in tgt], x.data)
        if f == "expand_dims" and args:
            x = self.poly(args[0])
            ax, _ = self._axis(m, args[1:])
            if ax is None or len(ax) != 1 or not -(len(x.shape) + 1) <= ax[0] <= len(x.shape):
                raise _NotComputable("expand_dims axis")
            i = ax[0] % (len(x.shape) + 1)
            return _Arr(x.shape[:i] + (1,) + x.shape[i:], x.data)
        if f == "subscript" and len(args) == 1:
            base = args[0].canon()
            if a.startswith(base + "[") and a.endswith("]"):
                return _a_index(self.poly(args[0]), a[len(base) + 1:-1])
        if f == "T" and len(args) == 1:
            x = self.poly(args[0])
            if len(x.shape) <= 1:
                return x
            if len(x.shape) == 2:
                return _Arr((x.shape[1], x.shape[0]), [x.at((i, j)) for j in range(x.shape[1]) for i in range(x.shape[0])])
        if f in ("Lt", "LtE") and len(args) == 2:
            return _a_map((lambda x, y: float(x < y)) if f == "Lt" else (lambda x, y: float(x <= y)), self.poly(args[0]), self.poly(args[1]))
        if f == "where" and len(args) == 3 and not kws:
            return _a_map(lambda c, x, y: x if c else y, *[self.poly(x) for x in args])
        raise _NotComputable(f"`{f}(...)` is not computed on arrays")


def _a_show(x):
    return f"shape {x.shape}" + (f" values {[round(v, 4) for v in x.data[:6]]}" if len(x.data) <= 6 else "")


_PAIR_N = 3     # samples in the batch of the shape worlds (any N >= 2 separates per-sample values from values reduced over the batch)


def _clipped_pair(ck, repo):
    """R6: ContinuousClippedDoubleQNet.__call__ / .mean in the two critic output conventions."""
    from ..nf import STRIP
    cq = "rl_blox.blox.double_qnet.ContinuousClippedDoubleQNet"
    nfa = NF(repo, inline_depth=4, strip=set(STRIP) - {"squeeze", "flatten", "ravel"})      # shapes matter here: layout changes are kept
    nfa.keep_layout = {"reshape"}
    nfa.expand_squares = False
    documented = {"__call__": ("minimum(q1(x), q2(x))", lambda a, b: _a_map(min, a, b)), "mean": ("0.5 * (q1(x) + q2(x))", lambda a, b: _a_map(lambda x, y: 0.5 * (x + y), a, b))}
    for meth, (text, want_of) in documented.items():
        def _one(meth=meth, text=text, want_of=want_of):
            m = repo.method(cq, meth)
            ck.need(m is not None, f"{cq}.{meth} not found (anchor vanished)")
            owner, fn = m
            fn._module = repo.cls(owner)._module
            qual = f"{cq}.{meth}"
            cfg = nfa.cfg_of(fn)
            rets = [n for n in cfg.nodes if n.kind == "stmt" and isinstance(n.ast, ast.Return) and n.ast.value is not None]
            ck.need(len(rets) == 1, f"{qual}: {len(rets)} return statements (unrecognised form)")
            sc = Scope(cfg, fn._module, {}, f"{owner}.{meth}", self_class=cq)       # calls of the wrapper's own methods are read through
            got = nfa.poly(rets[0].ast.value, sc, rets[0].id)
            if got.elems is not None or _UNREAD.search(got.canon()):
                raise AnalysisError(f"{qual}: `{got.canon()[:100]}` contains a part that was not read (unrecognised form)")
            heads = {}
            for a in _reachable(nfa, got):
                f_ = (nfa.meta.get(a) or {}).get("fn", "")
                if f_ in ("self.q1", "self.q2"):
                    heads.setdefault(f_, set()).add(a)
            if set(heads) != {"self.q1", "self.q2"} or any(len(v) != 1 for v in heads.values()):
                raise AnalysisError(f"{qual}: `{got.canon()[:100]}` does not apply each of the two heads exactly once (which value is the documented pair is not read here) (unrecognised form)")
            h1, h2 = next(iter(heads["self.q1"])), next(iter(heads["self.q2"]))
            sig = lambda a: ([x.canon() for x in nfa.meta[a]["args"]], sorted((k, v.canon()) for k, v in nfa.meta[a]["kws"].items()))
            if sig(h1) != sig(h2):
                raise AnalysisError(f"{qual}: the two heads receive different arguments (not read here) (unrecognised form)")
            verdicts, unread = [], []
            for conv, shape in (("(N,)", (_PAIR_N,)), ("(N,1)", (_PAIR_N, 1))):
                def leaf(a, meta, shape=shape, conv=conv):
                    if a in (h1, h2):
                        r = random.Random(f"c12|pair|{conv}|{a}")
                        return _Arr(shape, [r.choice((-1.0, 1.0)) * r.uniform(0.3, 1.7) for _ in range(math.prod(shape))])
                    return None
                pt = _ArrayPoint(nfa, leaf)
                want = want_of(pt.atom(h1), pt.atom(h2))
                try:
                    g = pt.poly(got)
                except AnalysisError:
                    raise
                except Exception as e:       # anything the small array evaluator does not carry out is "not read", never a verdict
                    unread.append(f"critic outputs {conv}: {e}")
                    continue
                same = g.shape == want.shape and all(abs(x - y) <= 1e-9 * max(1.0, abs(x), abs(y)) for x, y in zip(g.data, want.data))
                verdicts.append((conv, same, g, want))
            bad = [v for v in verdicts if not v[1]]
            if not bad and unread:
                raise AnalysisError(f"{qual}: `{got.canon()[:100]}` is not computed on arrays ({'; '.join(unread)}) (unrecognised form)")
            detail = ""
            if bad:
                conv, _, g, want = bad[0]
                detail = (f"with critics that return {conv} (N = {_PAIR_N}) the result has {_a_show(g)} instead of the per-sample {text} with {_a_show(want)}"
                          + (": the reduction runs over the batch as well, every sample gets the same value" if len(g.data) < len(want.data) else ""))
            ck.ob("R6-clipped-pair", qual, "per-sample-in-both-conventions", not bad, f"return {got.canon()[:110]}   [" + ", ".join(f"{c}: {'same' if s_ else 'differs'}" for c, s_, _, _ in verdicts) + "]",
                  detail, loc(fn._module, fn))
        ck.guard(_one)


# (loss, recorded name of the critic parameter whose output may be (N,) or (N,1))
VALUE_WORLDS = [("rl_blox.algorithm.ppo.ppo_loss", "critic"), ("rl_blox.algorithm.sac.sac_actor_loss", "q")]


def _value_worlds(ck, repo):
    """R5, on concrete arrays: the objective is evaluated with a critic that returns (N,) and with one that returns (N,1) (the same
    N numbers), every other per-sample quantity being an (N,) vector and the documented scalars numbers.  The documented formula,
    evaluated with the critic's values as one number per sample, is the reference.  A different value in one of the conventions is a
    witness (a broadcast to (N,N), one sample's value used for the whole batch); whatever the small array evaluator does not carry
    out is not read."""
    from ..nf import STRIP
    nfa = _NFSig(repo, inline_depth=4, strip=set(STRIP) - {"squeeze", "flatten", "ravel"})
    nfa.keep_layout = {"reshape"}
    nfa.expand_squares = False
    for q, critic in VALUE_WORLDS:
        def _one(q=q, critic=critic):
            fn = repo.func(q)
            mi = fn._module
            env = _env(fn)
            ren = _renames(repo, q)
            params = set(param_names(fn))
            got = _return_poly(nfa, q, env)
            if got.elems is not None:
                got = got.elems[0]
            sc0 = Scope(None, mi, env, q)
            want = nfa.poly(_spec(FORMULAS[q][1], ren), sc0, None)
            scalars = {nfa.poly(_spec(t, ren), sc0, None).canon() for t in SCALARS.get(q, ())}
            if got.elems is not None or _UNREAD.search(got.canon()):
                raise AnalysisError(f"{q}: `{got.canon()[:100]}` contains a part that was not read (unrecognised form)")
            heads = {a for a in _reachable(nfa, got) | _reachable(nfa, want) if (nfa.meta.get(a) or {}).get("fn", "") == ren[critic]}
            if len(heads) != 1 or not heads <= _reachable(nfa, got):
                raise AnalysisError(f"{q}: the application of `{ren[critic]}` whose output convention varies is not identified ({len(heads)} different applications) (unrecognised form)")
            head = next(iter(heads))

            def leaves(shape):
                def leaf(a, meta):
                    f_ = (meta or {}).get("fn", "")
                    if f_ and (f_ in _A_COMPUTED or f_.split(".")[0] not in params):
                        return None          # a function of the library / of the package: computed or not read (`clip(...)` is the library's also with a parameter `clip`)
                    r = random.Random(f"c12|worlds|{a}")
                    if a in scalars:
                        return _a_scalar(r.uniform(0.3, 1.7))
                    data = [r.choice((-1.0, 1.0)) * r.uniform(0.3, 1.7) for _ in range(_PAIR_N)]
                    return _Arr(shape if a == head else (_PAIR_N,), data)
                return leaf
            # the verdict needs no reference: the same N numbers in the two layouts must give the same objective
            results, unread = [], []
            for conv, shape in (("(N,)", (_PAIR_N,)), ("(N,1)", (_PAIR_N, 1))):
                try:
                    results.append((conv, _ArrayPoint(nfa, leaves(shape)).poly(got)))
                except AnalysisError:
                    raise
                except Exception as e:       # anything the small array evaluator does not carry out is "not read", never a verdict
                    unread.append(f"critic output {conv}: {e}")
            if unread:
                raise AnalysisError(f"{q}: `{got.canon()[:100]}` is not computed on arrays ({'; '.join(unread)}) (unrecognised form)")
            (c1, g1), (c2, g2) = results
            same = g1.shape == g2.shape and all(abs(x - y) <= 1e-9 * max(1.0, abs(x), abs(y)) for x, y in zip(g1.data, g2.data))
            detail = ""
            if not same:
                off = ""
                try:      # which of the two is the documented value (for the message only)
                    w = _ArrayPoint(nfa, leaves((_PAIR_N,))).poly(want)
                    eq = lambda g: g.shape == w.shape and all(abs(x - y) <= 1e-9 * max(1.0, abs(x), abs(y)) for x, y in zip(g.data, w.data))
                    off = "".join(f"; with {c} it is {'the' if eq(g) else 'not the'} documented per-sample value" for c, g in results)
                except Exception:
                    pass
                detail = (f"the same {_PAIR_N} critic values give {_a_show(g1)} when `{ren[critic]}` returns {c1} and {_a_show(g2)} when it returns {c2}{off}: "
                          f"in one convention the critic's output is not used as one value per sample (broadcast against the batch / one sample's value for all)")
            ck.ob("R5-value-shapes", q, "same-value-in-both-conventions", same, f"{got.canon()[:110]}   [{c1}: {_a_show(g1)}, {c2}: {_a_show(g2)}]", detail, loc(mi, fn))
        ck.guard(_one)


def _number(e):
    """Value of a numeric literal (also signed), else None."""
    if isinstance(e, ast.UnaryOp) and isinstance(e.op, (ast.USub, ast.UAdd)):
        v = _number(e.operand)
        return None if v is None else (-v if isinstance(e.op, ast.USub) else v)
    if isinstance(e, ast.Constant) and isinstance(e.value, (int, float)) and not isinstance(e.value, bool):
        return e.value
    return None


def _class_constants(repo, cq) -> dict:
    """Name -> numeric literal for the names that a class of the MRO of ``cq`` binds in its body to a number and that nothing in the
    package ever stores as an attribute (no `self.NAME = ...`, `Class.NAME = ...`, `setattr`-free by construction of the scan):
    `self.NAME` then reads that number in every instance."""
    found = {}
    for c in repo.mro(cq):
        for st in repo.cls(c).body:
            tgt = st.targets[0] if isinstance(st, ast.Assign) and len(st.targets) == 1 else (st.target if isinstance(st, ast.AnnAssign) and st.value is not None else None)
            if isinstance(tgt, ast.Name) and _number(st.value) is not None:
                found.setdefault(tgt.id, []).append(_number(st.value))
    found = {k: v[0] for k, v in found.items() if len(v) == 1}
    if found:
        for mi in repo.modules.values():
            for n in ast.walk(mi.tree):
                if isinstance(n, ast.Attribute) and n.attr in found and isinstance(n.ctx, (ast.Store, ast.Del)):
                    found.pop(n.attr)
                elif isinstance(n, ast.Call) and isinstance(n.func, ast.Name) and n.func.id in ("setattr", "delattr"):
                    return {}
    return found


def _with_class_constants(repo, cq, fn):
    """Copy of method ``fn`` in which reads `self.NAME` of numeric class-level constants are the numbers (the method itself when
    there is nothing to replace).  Local rebinding of `self` is not expected in a method; a parameter other than the first one
    named like that would not be `self`."""
    consts = _class_constants(repo, cq)
    first = fn.args.posonlyargs + fn.args.args
    if not consts or not first:
        return fn
    me = first[0].arg
    if any(isinstance(n, ast.Name) and n.id == me and isinstance(n.ctx, (ast.Store, ast.Del)) for n in ast.walk(fn)):
        return fn
    from ..expand import clone
    new = clone(fn)

    class T(ast.NodeTransformer):
        hit = False

        def visit_Attribute(self, n):
            self.generic_visit(n)
            if isinstance(n.ctx, ast.Load) and isinstance(n.value, ast.Name) and n.value.id == me and n.attr in consts:
                T.hit = True
                return ast.copy_location(ast.Constant(value=consts[n.attr]), n)
            return n
    new = T().visit(new)
    if not T.hit:
        return fn
    ast.fix_missing_locations(new)
    for parent in ast.walk(new):
        for child in ast.iter_child_nodes(parent):
            child._parent = parent
    new._module = fn._module
    if hasattr(fn, "_qual"):
        new._qual = fn._qual
    if hasattr(fn, "_parent"):
        new._parent = fn._parent
    return new


def _bind_app(uq, app: ast.Call, lfn) -> dict:
    """Loss parameter -> argument expression of the application of the differentiated loss (positional and keyword arguments)."""
    if any(isinstance(a, ast.Starred) for a in app.args) or any(k.arg is None for k in app.keywords):
        raise AnalysisError(f"{uq}: the loss is applied to packed arguments `{short(app, 70)}` (cannot bind them to the parameters of {lfn.name}) (unrecognised form)")
    lp = positional_params(lfn)
    if len(app.args) > len(lp) and not lfn.args.vararg:
        raise AnalysisError(f"{uq}: `{short(app, 70)}` passes more arguments than {lfn.name} has parameters (unrecognised form)")
    b = {lp[i]: a for i, a in enumerate(app.args) if i < len(lp)}
    names = set(param_names(lfn))
    for k in app.keywords:
        if k.arg not in names:
            raise AnalysisError(f"{uq}: keyword `{k.arg}` of `{short(app, 70)}` is not a parameter of {lfn.name} (unrecognised form)")
        b[k.arg] = k.value
    return b


def _app_node(cfg, uq, site):
    """CFG node of the application (of the written call when the site was rewritten through a local wrapper)."""
    for app in (site["app"], getattr(site["app"], "_original", None)):
        if app is None:
            continue
        try:
            return cfg.node_of(app).id
        except (KeyError, AttributeError):
            continue
    raise AnalysisError(f"{uq}: the gradient application `{short(site['app'], 60)}` is not a statement of the routine itself (nested function) (unrecognised form)")


def _value_shapes(ck, repo):
    """Symbolic shapes of the losses that combine critic outputs (N,1) with per-sample vectors (N,)."""
    from ..shapes import ShapeEngine
    cases = [
        ("rl_blox.algorithm.ppo.ppo_loss", {"observations": ("B", "O"), "actions": ("B", "A"), "advantages": ("B",), "returns": ("B",), "old_logps": ("B",), "clip": ()}, {"critic": 1}),
        ("rl_blox.blox.losses.mse_value_loss", {"observations": ("B", "O"), "v_target_values": ("B",)}, {"v": 1}),
        ("rl_blox.algorithm.sac.sac_actor_loss", {"observations": ("B", "O"), "alpha": ()}, {"q": 1}),
        ("rl_blox.algorithm.actor_critic.actor_critic_policy_gradient", {"observations": ("B", "O"), "actions": ("B", "A"), "next_observations": ("B", "O"), "rewards": ("B",), "gamma_discount": ("B",), "gamma": ()}, {"value_function": 1}),
        ("rl_blox.algorithm.reinforce.reinforce_gradient", {"observations": ("B", "O"), "actions": ("B", "A"), "returns": ("B",), "gamma_discount": ("B",)}, {"value_function": 1}),
    ]
    for q, env, mods in cases:
        fn = repo.func(q)
        ren = _renames(repo, q)
        env = {ren.get(k, k): v for k, v in env.items()}
        se = ShapeEngine(repo)
        se.module_out = {ren.get(k, k): v for k, v in mods.items()}
        se.analyse(fn, fn._module, q, env)
        if not se.alarms:
            ck.ob("R5-value-shapes", q, "shapes", True, f"no shape alarm with {env} and critic output (B,1); {len(se.trace)} expressions typed", "", loc(fn._module, fn))
        for rel, line, kind, text, qual in se.alarms:
            ck.ob("R5-value-shapes", q, f"shape:{kind}", False, f"{kind}", text + " - the term is not the per-sample squared error / weight", f"{rel}:{line}")


# loss parameter -> what the update routine must pass for it, written with the routine's recorded parameter names (a renamed
# parameter of the routine or of the loss keeps its role: both sides go through _renames)
ROLES = {
    "rl_blox.algorithm.ddpg.ddpg_update_actor": {"q": "q", "observation": "observation", "policy": "policy"},
    "rl_blox.algorithm.td7.td7_update_actor": {"embedding": "policy.embedding", "critic": "critic", "observation": "observation", "actor": "policy.actor"},
    "rl_blox.algorithm.sac.sac_update_actor": {"policy": "policy", "q": "q", "alpha": "alpha", "action_key": "action_key", "observations": "observation"},
    "rl_blox.algorithm.sac._update_entropy_coefficient": {"policy": "policy", "target_entropy": "target_entropy", "action_key": "action_key", "observations": "observations", "alpha": "log_alpha"},
    "rl_blox.algorithm.ppo.update_ppo": {"actor": "actor", "critic": "critic", "observations": "observation", "actions": "action"},
    "rl_blox.algorithm.reinforce.reinforce_gradient": {"observation": "observations", "action": "actions", "policy": "policy"},
    "rl_blox.algorithm.actor_critic.actor_critic_policy_gradient": {"observation": "observations", "action": "actions", "policy": "policy"},
    "rl_blox.algorithm.a2c.a2c_policy_gradient": {"observation": "observations", "action": "actions", "weight": "advantages", "policy": "policy"},
}


def _own_tokens(ren: dict, *spec_texts) -> set:
    """Names a value may be made of to count as 'built from the routine's own documented parameters': the parameters of the recorded
    signature (under their current names; a parameter that was added later has no documented provenance) and the attribute names
    the recorded roles use."""
    out = set(ren.values())
    for t in spec_texts:
        out |= {n.attr for n in ast.walk(parse_expr(t)) if isinstance(n, ast.Attribute)}
    return out


def _role_transfer(ck, repo, nf, uq, fn, lq, b, site, rule):
    """Each loss parameter with a recorded counterpart must receive that parameter of the update routine (local aliases, keyword
    arguments and value-transparent conversions are resolved by the normal form at the application).  Another parameter of the
    routine in its place is a violation; a value that is not made of the routine's parameters is not read."""
    mi = fn._module
    cfg = nf.cfg_of(fn)
    at = _app_node(cfg, uq, site)
    uren, lren = _renames(repo, uq), _renames(repo, lq)
    env = _env(fn)
    sc = Scope(cfg, mi, env, uq)
    roles = ROLES.get(uq, {})
    own = _own_tokens(uren, *roles.values()) | BASIC_EXTRAS
    for pname, text in roles.items():
        a = b.get(lren[pname])
        if a is None:
            raise AnalysisError(f"{uq}: no argument is bound to `{lren[pname]}` in `{short(site['app'], 70)}` (unrecognised form)")
        want = nf.poly(_spec(text, uren), Scope(None, mi, env, uq), None)
        got = nf.poly(a, sc, at)
        _decide(ck, nf, rule, uq, f"arg:{pname}", f"the argument for `{lren[pname]}`", got, [want], f"the loss parameter `{lren[pname]}` must receive the routine's `{want.canon()}`", loc(mi, site["app"]),
                extras=own, shown=f"{lren[pname]} <- {got.canon()[:60]}")


def _pg_weights(ck, repo, nf):
    """Weights of the three policy-gradient callers, per CFG path, computed outside the differentiated function."""
    specs = {
        "rl_blox.algorithm.reinforce.reinforce_gradient": ["returns - value_function(observations)", "(returns - value_function(observations)) * gamma_discount",
                                                            "returns - jnp.zeros_like(returns)", "(returns - jnp.zeros_like(returns)) * gamma_discount", "returns", "returns * gamma_discount"],
        "rl_blox.algorithm.actor_critic.actor_critic_policy_gradient": ["gamma_discount * (rewards + gamma * value_function(next_observations) - value_function(observations))"],
        "rl_blox.algorithm.a2c.a2c_policy_gradient": ["advantages"],
    }
    lq = LQ + "stochastic_policy_gradient_pseudo_loss"
    lfn = repo.func(lq)
    wparam = _renames(repo, lq)["weight"]
    for q, allowed_txt in specs.items():
        def _one(q=q, allowed_txt=allowed_txt):
            from ..sem import split_conditional_assignments
            fn0 = repo.func(q)
            mi = fn0._module
            fn = split_conditional_assignments(fn0)          # `w = a if c else b` is read as two paths
            cfg = nf.cfg_of(fn)
            env = _env(fn)
            ren = _renames(repo, q)
            gs_ = _grad_sites(repo, nf, fn, mi)
            if len(gs_) != 1:
                raise AnalysisError(f"{q}: expected one gradient site, found {len(gs_)} (anchor vanished)")
            site = gs_[0]
            if not (isinstance(site["loss"], (ast.Name, ast.Attribute)) and repo.resolve_expr(mi, site["loss"]) == lq):
                raise AnalysisError(f"{q}: differentiates `{short(site['loss'], 50)}`, not the pseudo-loss itself (unrecognised form)")
            warg = _bind_app(q, site["app"], lfn).get(wparam)
            if warg is None:
                raise AnalysisError(f"{q}: no argument is bound to `{wparam}` in `{short(site['app'], 60)}` (unrecognised form)")
            tgt = _app_node(cfg, q, site)
            try:
                paths = enumerate_paths(cfg, cfg.entry, {tgt})
            except RuntimeError as e:
                raise AnalysisError(f"{q}: {e} (unrecognised form)")
            sc0 = Scope(None, mi, env, q)
            allowed = [nf.poly(_spec(a, ren), sc0, None) for a in allowed_txt]
            scalars = {nf.poly(_spec(s, ren), sc0, None).canon() for s in SCALARS.get(q, ())}
            seen = set()
            for p in paths:
                pe = PathEval(nf, cfg, mi, q, env).run(p[:-1])
                w = pe.ev(warg)
                c = w.canon()
                if c in seen:
                    continue
                seen.add(c)
                _decide(ck, nf, "R1-pseudo-loss", q, f"weights:{c[:80]}", "the weight", w, allowed, "weights are not the documented (returns - baseline)[* gamma^t] / gamma^t * TD error / advantages", loc(mi, site["app"]),
                        scalars, shown=f"weights = {c[:150]}")
            ck.count("pg-weight-paths", len(paths))
        ck.guard(_one)


def _a2c_normalised(ck, repo, nf):
    # a2c: advantages are normalised outside the differentiated function
    q = "rl_blox.algorithm.a2c.train_policy_a2c"
    gq = "rl_blox.algorithm.a2c.a2c_policy_gradient"
    fn = repo.func(q)
    mi = fn._module
    cfg = nf.cfg_of(fn)
    env = _env(fn)
    def calls_in(g):
        return [(n, c) for n in g.nodes if n.ast is not None and n.kind == "stmt" for c in ast.walk(n.ast)
                if isinstance(c, ast.Call) and isinstance(c.func, (ast.Name, ast.Attribute)) and (repo.resolve_expr(mi, c.func) == gq or dotted(c.func) == "a2c_policy_gradient")]
    calls = calls_in(cfg)
    sc = Scope(cfg, mi, env, q)
    if not calls:
        # the gradient step may be written as a local closure (handed to a stepping helper): the weights are then a free variable
        # of the closure, read with the value the routine binds once at its top level
        from ..sem import closure_env
        inner = [(g, calls_in(nf.cfg_of(g))) for g in ast.walk(fn) if isinstance(g, ast.FunctionDef) and g is not fn]
        inner = [(g, cs) for g, cs in inner if cs]
        if len(inner) == 1 and len(inner[0][1]) == 1:
            g, calls = inner[0]
            own = set(param_names(g))
            rebound = {x.id for x in ast.walk(g) if isinstance(x, ast.Name) and isinstance(x.ctx, ast.Store)}
            genv = {k: v for k, v in env.items() if k not in own | rebound}
            genv.update({k: v for k, v in closure_env(nf, fn, g, mi, env, q).items() if k not in own | rebound})
            genv.update({k: Poly.atom(k, {k}, {k}) for k in own})
            sc = Scope(nf.cfg_of(g), mi, genv, f"{q}.<locals>.{g.name}")
    ck.need(len(calls) == 1, f"{q}: the a2c_policy_gradient call was not found (unrecognised form)")
    n, c = calls[0]
    if any(isinstance(a, ast.Starred) for a in c.args) or any(k.arg is None for k in c.keywords):
        raise AnalysisError(f"{q}: `{short(c, 70)}` passes packed arguments (unrecognised form)")
    padv = _renames(repo, gq)["advantages"]
    a = bind_call(repo.func(gq), c).get(padv)
    if a is None:
        raise AnalysisError(f"{q}: no argument is bound to `{padv}` in `{short(c, 70)}` (unrecognised form)")
    got = nf.poly(a, sc, n.id)
    want = nf.poly(_spec("(advantages - jnp.mean(advantages)) / (jnp.std(advantages) + 1e-8)", _renames(repo, q)), Scope(None, mi, env, q), None)
    _decide(ck, nf, "R1-pseudo-loss", q, "normalised-advantages", "the weight", got, [want], "A2C weights must be (A - mean A) / (std A + 1e-8)", loc(mi, c), shown=f"weights = {got.canon()[:140]}")


def _evaluations(cfg, e, at, seen=None):
    """(CFG node, call) for every call that is evaluated to produce the value of expression ``e`` at node ``at``: the calls written
    in the expression and, through the reaching definitions of its local names, those of the statements that computed them."""
    seen = set() if seen is None else seen
    out = [(at, c) for c in ast.walk(e) if isinstance(c, ast.Call)]
    for n in ast.walk(e):
        if not (isinstance(n, ast.Name) and isinstance(n.ctx, ast.Load)):
            continue
        for d in cfg.defs_of(at, n.id):
            if d.kind == "param" or (d.node, d.name) in seen:
                continue
            seen.add((d.node, d.name))
            if d.kind in ("assign", "unpack", "walrus") and isinstance(d.value, ast.expr):
                out += _evaluations(cfg, d.value, d.node, seen)
            elif d.kind == "aug" and isinstance(d.value, ast.AugAssign):
                out += _evaluations(cfg, d.value.value, d.node, seen)
                out += _evaluations(cfg, ast.Name(id=d.name, ctx=ast.Load()), d.node, seen)
            elif d.kind in ("import", "funcdef", "classdef"):
                continue
            else:
                raise AnalysisError(f"`{d.name}` is bound by a {d.kind} statement")
    return out


def _ppo_update(ck, repo, nf):
    q = "rl_blox.algorithm.ppo.update_ppo"
    lq = "rl_blox.algorithm.ppo.ppo_loss"
    gq = "rl_blox.blox.gae.compute_gae"
    fn = repo.func(q)
    mi = fn._module
    cfg = nf.cfg_of(fn)
    env = _env(fn)
    sites = _grad_sites(repo, nf, fn, mi)
    ck.need(len(sites) == 1, f"{q}: expected one gradient site, found {len(sites)}")
    site = sites[0]
    if not (isinstance(site["loss"], (ast.Name, ast.Attribute)) and repo.resolve_expr(mi, site["loss"]) == lq):
        raise AnalysisError(f"{q}: differentiates `{short(site['loss'], 50)}`, not ppo_loss itself (unrecognised form)")
    at = _app_node(cfg, q, site)
    uren, lren, gren = _renames(repo, q), _renames(repo, lq), _renames(repo, gq)
    b = _bind_app(q, site["app"], repo.func(lq))
    sc = Scope(cfg, mi, env, q)
    sc0 = Scope(None, mi, env, q)
    where = loc(mi, site["app"])
    own = _own_tokens(uren) | BASIC_EXTRAS | {"log_probability"}

    def arg(pname):
        a = b.get(lren[pname])
        if a is None:
            raise AnalysisError(f"{q}: no argument is bound to `{lren[pname]}` in `{short(site['app'], 70)}` (unrecognised form)")
        return a

    want_lp = nf.poly(_spec("actor.log_probability(observation, action)", uren), sc0, None)

    def _old_same_data():
        v = nf.poly(arg("old_logps"), sc, at)
        if v != want_lp and "log_probability" not in ingredient_tokens(v):
            # e.g. log-probabilities recorded during the rollout and handed in: their provenance is outside this routine
            raise AnalysisError(f"{q}: `{lren['old_logps']}` receives `{v.canon()[:80]}`, which is not computed from the actor in this routine (unrecognised form)")
        _decide(ck, nf, "R2-ppo", q, "old-logp-same-data", "logp_old", v, [want_lp], "logp_old must be actor.log_probability(observation, action) on the same batch that is optimised", where,
                extras=own, shown=f"logp_old = {v.canon()[:100]}")
    ck.guard(_old_same_data)

    def _old_fixed():
        # where the log-probabilities that reach `old_logps` are evaluated: a path witness (the evaluation sits inside a loop that
        # also encloses the gradient step) is the evidence; not finding the evaluation is not
        old = arg("old_logps")
        loops = cfg.enclosing_loops(at)
        try:
            evals = _evaluations(cfg, old, at)
        except AnalysisError as e:
            raise AnalysisError(f"{q}: where `{short(old, 40)}` is computed is not read: {e} (unrecognised form)")
        def computes(c, nid):
            # the call produces the log-probabilities, and none of its operands already is that value (stop_gradient(logp),
            # jnp.asarray(logp), logp.squeeze() pass a computed value on)
            if nf.poly(c, sc, nid) != want_lp:
                return False
            operands = list(c.args) + [k.value for k in c.keywords] + ([c.func.value] if isinstance(c.func, ast.Attribute) else [])
            return not any(nf.poly(o.value if isinstance(o, ast.Starred) else o, sc, nid) == want_lp for o in operands)
        lp = [nid for nid, c in evals if computes(c, nid)]
        if not lp:
            raise AnalysisError(f"{q}: the evaluation of the log-probabilities passed as `{lren['old_logps']}` was not found (unrecognised form)")
        inside = [nid for nid in lp if set(cfg.enclosing_loops(nid)) & set(loops)]
        ck.ob("R2-ppo", q, "old-logp-fixed-before-epochs", not inside,
              f"log-probabilities for `{lren['old_logps']}` evaluated at line {', '.join(str(cfg.nodes[x].lineno) for x in sorted(set(lp)))}, epoch loop at line {cfg.nodes[loops[0]].lineno if loops else '-'}",
              "" if not inside else "logp_old is recomputed inside the epoch loop: the ratio is always 1 and clipping never acts", where)
    ck.guard(_old_fixed)

    # advantages / returns come from compute_gae in that order
    def _gae():
        adv, ret = arg("advantages"), arg("returns")
        gfn = repo.func(gq)
        roles = {"rewards": "reward", "values": "critic(observation)", "next_values": "next_value", "terminateds": "terminated"}
        order = None       # (position of the result that is passed as advantages, ... as returns)
        got, use_nf, where_g = None, nf, where
        if isinstance(adv, ast.Name) and isinstance(ret, ast.Name):
            da, dr = cfg.defs_of(at, adv.id), cfg.defs_of(at, ret.id)
            if len(da) == 1 and len(dr) == 1 and da[0].node == dr[0].node and da[0].kind == "unpack" and dr[0].kind == "unpack" and {da[0].path, dr[0].path} == {(0,), (1,)} \
                    and isinstance(da[0].value, ast.Call) and isinstance(da[0].value.func, (ast.Name, ast.Attribute)) and repo.resolve_expr(mi, da[0].value.func) == gq:
                g = da[0].value
                if any(isinstance(a_, ast.Starred) for a_ in g.args) or any(k.arg is None for k in g.keywords):
                    raise AnalysisError(f"{q}: `{short(g, 70)}` passes packed arguments (unrecognised form)")
                order = (da[0].path[0], dr[0].path[0])
                got = {k: nf.poly(v, sc, da[0].node) for k, v in bind_call(gfn, g).items() if not k.startswith("*")}
                where_g = loc(mi, g)
        if order is None:
            # other read forms of the same result: by field name, by index, through locals
            nfc = NF(repo, inline_depth=1, inline_calls=False)
            pa, pr = nfc.poly(adv, Scope(cfg, mi, env, q), at), nfc.poly(ret, Scope(cfg, mi, env, q), at)
            ca, cr = pa.canon(), pr.canon()

            def split(c):
                for sfx, i in ((".advantages", 0), (".returns", 1), ("[0]", 0), ("[1]", 1)):
                    if c.endswith(sfx) and nfc.meta.get(c[: -len(sfx)], {}).get("fn") == gq:
                        return c[: -len(sfx)], i
                return None, None
            (call_a, ia), (call_r, ir) = split(ca), split(cr)
            if call_a is None or call_r is None or call_a != call_r or {ia, ir} != {0, 1}:
                raise AnalysisError(f"{q}: advantages / returns are passed as `{ca[-60:]}` / `{cr[-60:]}`: not read as the two results of one compute_gae call (unrecognised idiom)")
            order = (ia, ir)
            m_ = nfc.meta[call_a]
            gp = positional_params(gfn)
            got = {gp[i]: a_ for i, a_ in enumerate(m_.get("args", [])) if i < len(gp)}
            got.update(m_.get("kws", {}))
            use_nf = nfc
        okg = order == (0, 1)
        ck.ob("R2-ppo", q, "advantages-returns-from-gae", okg, f"advantages <- {short(adv)} (result {order[0]} of compute_gae), returns <- {short(ret)} (result {order[1]})",
              "" if okg else "advantages and returns must be the (first, second) result of compute_gae", where)
        for rname, text in roles.items():
            gv = got.get(gren[rname])
            if gv is None:
                raise AnalysisError(f"{q}: no argument is bound to `{gren[rname]}` of compute_gae (unrecognised form)")
            wv = use_nf.poly(_spec(text, uren), sc0, None)
            _decide(ck, use_nf, "R2-ppo", q, f"gae-arguments:{rname}", f"the argument for `{gren[rname]}` of compute_gae", gv, [wv], f"compute_gae must receive the rollout's `{wv.canon()}` as `{gren[rname]}`", where_g,
                    extras=own, shown=f"compute_gae({gren[rname]} <- {gv.canon()[:80]})")
    ck.guard(_gae)


_L = "rl_blox/blox/losses.py"
_PPO = "rl_blox/algorithm/ppo.py"
_SAC = "rl_blox/algorithm/sac.py"
MUTANTS = [
    {"id": "c12-pseudo-sign", "file": _L, "rule": "R1", "find": "    return -jnp.mean(weight * logp)", "replace": "    return jnp.mean(weight * logp)"},
    {"id": "c12-pseudo-sum", "file": _L, "rule": "R1", "find": "    return -jnp.mean(weight * logp)", "replace": "    return -jnp.sum(weight * logp)"},
    {"id": "c12-pseudo-swapped-args", "file": _L, "rule": "R1", "find": "    logp = policy.log_probability(observation, action)", "replace": "    logp = policy.log_probability(action, observation)"},
    {"id": "c12-dpg-sign", "file": _L, "rule": "R3", "find": "    return -q(obs_act).mean()", "replace": "    return q(obs_act).mean()"},
    {"id": "c12-ddpg-argnums", "file": "rl_blox/algorithm/ddpg.py", "rule": "R3", "find": "deterministic_policy_gradient_loss, argnums=2", "replace": "deterministic_policy_gradient_loss, argnums=(0, 2)", "accept_error": True},
    {"id": "c12-reinforce-weights-plus", "file": "rl_blox/algorithm/reinforce.py", "rule": "R1", "find": "    weights = returns - baseline", "replace": "    weights = returns + baseline"},
    {"id": "c12-reinforce-discount-twice", "file": "rl_blox/algorithm/reinforce.py", "rule": "R1", "find": "        weights *= gamma_discount", "replace": "        weights *= gamma_discount * gamma_discount"},
    {"id": "c12-ac-td-sign", "file": "rl_blox/algorithm/actor_critic.py", "rule": "R1", "find": "    td_bootstrap_estimate = rewards + gamma * v_next - v", "replace": "    td_bootstrap_estimate = rewards + gamma * v - v_next"},
    {"id": "c12-a2c-no-centering", "file": "rl_blox/algorithm/a2c.py", "rule": "R1", "find": "    normalized_advantages = (advantages - adv_mean) / adv_std", "replace": "    normalized_advantages = advantages / adv_std"},
    {"id": "c12-ppo-maximum", "file": _PPO, "rule": "R2", "find": "    policy_loss = -jnp.mean(jnp.minimum(surrogate1, surrogate2))", "replace": "    policy_loss = -jnp.mean(jnp.maximum(surrogate1, surrogate2))"},
    {"id": "c12-ppo-clip-range", "file": _PPO, "rule": "R2", "find": "jnp.clip(ratios, 1 - clip, 1 + clip)", "replace": "jnp.clip(ratios, 1 - clip, 1 + 2 * clip)"},
    {"id": "c12-ppo-ratio-inverted", "file": _PPO, "rule": "R2", "find": "    ratios = jnp.exp(logps - old_logps)", "replace": "    ratios = jnp.exp(old_logps - logps)"},
    {"id": "c12-ppo-entropy-sign", "file": _PPO, "rule": "R2", "find": "        - 0.01 * actor.entropy(observations).mean()", "replace": "        + 0.01 * actor.entropy(observations).mean()"},
    {"id": "c12-ppo-logp-in-loop", "file": _PPO, "rule": "R2", "find": "    logp = actor.log_probability(observation, action)\n    loss_grad_fn = nnx.value_and_grad(ppo_loss, argnums=(0, 1))\n\n    for _ in range(epochs):\n",
     "replace": "    loss_grad_fn = nnx.value_and_grad(ppo_loss, argnums=(0, 1))\n\n    for _ in range(epochs):\n        logp = actor.log_probability(observation, action)\n"},
    {"id": "c12-ppo-adv-ret-swapped", "file": _PPO, "rule": "R2", "find": "            actor, critic, logp, observation, action, advs, returns", "replace": "            actor, critic, logp, observation, action, returns, advs"},
    {"id": "c12-sac-actor-sign", "file": _SAC, "rule": "R4", "find": "    actor_loss = (alpha * log_prob - q_value).mean()", "replace": "    actor_loss = (q_value - alpha * log_prob).mean()"},
    {"id": "c12-sac-alpha-sign", "file": _SAC, "rule": "R4", "find": "    return (-alpha() * (log_prob + target_entropy)).mean()", "replace": "    return (alpha() * (log_prob + target_entropy)).mean()"},
    {"id": "c12-sac-alpha-minus-target", "file": _SAC, "rule": "R4", "find": "    return (-alpha() * (log_prob + target_entropy)).mean()", "replace": "    return (-alpha() * (log_prob - target_entropy)).mean()"},
    {"id": "c12-sac-alpha-not-exp", "file": _SAC, "rule": "R4", "find": "        return jnp.exp(self.log_alpha.value)", "replace": "        return jnp.abs(self.log_alpha.value)"},
    {"id": "c12-sac-exploration-wrt-policy", "file": _SAC, "rule": "R4", "find": "        sac_exploration_loss, argnums=4", "replace": "        sac_exploration_loss, argnums=0"},
    {"id": "c12-td7-q1-only", "file": "rl_blox/algorithm/td7.py", "rule": "R3", "find": "    return -critic.mean(obs_act, zs=zs, zsa=zsa).mean()", "replace": "    return -critic.q1(obs_act, zs=zs, zsa=zsa).mean()"},
    {"id": "c12-mrq-penalty-sign", "file": "rl_blox/algorithm/mrq.py", "rule": "R3", "find": "    policy_loss = dpg_loss + activation_weight * policy_regularization", "replace": "    policy_loss = dpg_loss - activation_weight * policy_regularization"},
    {"id": "c12-mrq-penalty-on-action", "file": "rl_blox/algorithm/mrq.py", "rule": "R3", "find": "    policy_regularization = jnp.square(activation).mean()", "replace": "    policy_regularization = jnp.square(action).mean()"},
]
MUTANTS += [
    {"id": "c12-ppo-value-no-flatten", "file": _PPO, "rule": "R5", "find": "    values = critic(observations).flatten()", "replace": "    values = critic(observations)"},
    {"id": "c12-value-loss-no-squeeze", "file": _L, "rule": "R5", "find": "    values = v(observations).squeeze()  # squeeze Nx1-D -> N-D", "replace": "    values = v(observations)"},
    {"id": "c12-ac-no-squeeze", "file": "rl_blox/algorithm/actor_critic.py", "rule": "R5", "find": "    v_next = value_function(next_observations).squeeze()", "replace": "    v_next = value_function(next_observations)"},
    {"id": "c12-sac-actor-no-squeeze", "file": _SAC, "rule": "R5", "find": "    q_value = q(obs_act).squeeze()\n    actor_loss", "replace": "    q_value = q(obs_act)\n    actor_loss"},
]
# violation paths of the role / provenance rules (evidence: another parameter of the routine in the documented one's place, the
# evaluation of logp_old written inside the epoch loop)
MUTANTS += [
    {"id": "c12-reinforce-obs-act-swapped", "file": "rl_blox/algorithm/reinforce.py", "rule": "R1", "find": "    )(observations, actions, weights, policy)", "replace": "    )(actions, observations, weights, policy)"},
    {"id": "c12-sac-actor-wrong-observation-role", "file": _SAC, "rule": "R4", "find": "        policy, q, alpha, action_key, observation\n", "replace": "        policy, q, alpha, observation, action_key\n"},
    {"id": "c12-ppo-gae-args-swapped", "file": _PPO, "rule": "R2", "find": "        reward, critic(observation).flatten(), next_value, terminated\n", "replace": "        reward, critic(observation).flatten(), terminated, next_value\n"},
    {"id": "c12-ppo-logp-evaluated-at-the-step", "file": _PPO, "rule": "R2", "find": "            actor, critic, logp, observation, action, advs, returns", "replace": "            actor, critic, actor.log_probability(observation, action), observation, action, advs, returns"},
    {"id": "c12-ppo-old-logp-other-data", "file": _PPO, "rule": "R2", "find": "    logp = actor.log_probability(observation, action)\n", "replace": "    logp = actor.log_probability(action, observation)\n"},
    {"id": "c12-pseudo-logp-detached", "file": _L, "rule": "R1", "find": "    logp = policy.log_probability(observation, action)\n    chex", "replace": "    logp = jax.lax.stop_gradient(policy.log_probability(observation, action))\n    chex"},
    {"id": "c12-ppo-value-detached", "file": _PPO, "rule": "R2", "find": "    values = critic(observations).flatten()", "replace": "    values = jax.lax.stop_gradient(critic(observations)).flatten()"},
    {"id": "c12-ppo-max-of-negated-wrong-sign", "file": _PPO, "rule": "R2", "find": "    policy_loss = -jnp.mean(jnp.minimum(surrogate1, surrogate2))", "replace": "    policy_loss = jnp.mean(jnp.maximum(surrogate1, surrogate2))"},
    {"id": "c12-sac-alpha-outside-mean-wrong-sign", "file": _SAC, "rule": "R4", "find": "    actor_loss = (alpha * log_prob - q_value).mean()", "replace": "    actor_loss = q_value.mean() - alpha * log_prob.mean()"},
]
BENIGN = [
    {"id": "c12-b-pseudo-mean-neg", "file": _L, "find": "    return -jnp.mean(weight * logp)", "replace": "    return jnp.mean(-logp * weight)"},
    {"id": "c12-b-ppo-commuted", "file": _PPO, "find": "    surrogate1 = ratios * advantages", "replace": "    surrogate1 = advantages * ratios"},
    {"id": "c12-b-ppo-value-sq", "file": _PPO, "find": "    value_loss = jnp.mean((returns - values) ** 2)", "replace": "    value_loss = jnp.mean(jnp.square(values - returns))"},
    {"id": "c12-b-sac-distribute", "file": _SAC, "find": "    actor_loss = (alpha * log_prob - q_value).mean()", "replace": "    actor_loss = (alpha * log_prob).mean() - q_value.mean()"},
    {"id": "c12-b-reinforce-weights-local", "file": "rl_blox/algorithm/reinforce.py", "find": "    weights = returns - baseline\n", "replace": "    advantages = returns - baseline\n    weights = advantages\n"},
]
# refactoring kinds the audit made the rules tolerant to
BENIGN += [
    # the Param is read through a local / with [...]
    {"id": "c12-b-alpha-local-ellipsis", "file": _SAC, "find": "        return jnp.exp(self.log_alpha.value)", "replace": "        log_alpha = self.log_alpha[...]\n        return jnp.exp(log_alpha)"},
    # renamed parameter of a loss (callers pass it by position): specs, differentiated parameter and role tables follow the position
    {"id": "c12-b-pseudo-renamed-policy", "file": _L, "edits": [("    weight: jnp.ndarray,\n    policy: StochasticPolicyBase,", "    weight: jnp.ndarray,\n    pi: StochasticPolicyBase,"),
                                                                   ("    logp = policy.log_probability(observation, action)\n    chex", "    logp = pi.log_probability(observation, action)\n    chex")]},
    # renamed parameter of the update routine, an explicit default and keywords in the compute_gae call, keywords / stop_gradient at the gradient step
    {"id": "c12-b-ppo-update-renamed-kw", "file": _PPO, "edits": [("    reward: jnp.ndarray,\n    terminated", "    rewards: jnp.ndarray,\n    terminated"),
                                                                    ("        reward, critic(observation).flatten(), next_value, terminated\n", "        rewards, critic(observation).flatten(), next_values=next_value, terminateds=terminated, gamma=0.99\n"),
                                                                    ("            actor, critic, logp, observation, action, advs, returns", "            actor, critic, jax.lax.stop_gradient(logp), observation, action, returns=returns, advantages=advs")]},
    # equivalent spellings of the documented objective: max of the negated surrogates, ratio of exponentials, squared error as a product
    {"id": "c12-b-ppo-equivalent-spellings", "file": _PPO, "edits": [("    policy_loss = -jnp.mean(jnp.minimum(surrogate1, surrogate2))", "    policy_loss = jnp.mean(jnp.maximum(-surrogate1, -surrogate2))"),
                                                                       ("    ratios = jnp.exp(logps - old_logps)", "    ratios = jnp.exp(logps) / jnp.exp(old_logps)"),
                                                                       ("    value_loss = jnp.mean((returns - values) ** 2)", "    err = returns - values\n    value_loss = jnp.mean(err * err)")]},
    # stop_gradient on quantities that are constants of the gradient anyway (not computed from the differentiated parameter)
    {"id": "c12-b-constants-detached", "file": _L, "find": "    logp = policy.log_probability(observation, action)\n    chex", "replace": "    weight = jax.lax.stop_gradient(weight)\n    logp = policy.log_probability(jax.lax.stop_gradient(observation), action)\n    chex"},
    # the scalar temperature multiplies the mean instead of the samples
    {"id": "c12-b-sac-alpha-outside-mean", "file": _SAC, "find": "    actor_loss = (alpha * log_prob - q_value).mean()", "replace": "    actor_loss = alpha * log_prob.mean() - q_value.mean()"},
    # renamed parameters of a policy-gradient caller and keyword call of it
    {"id": "c12-b-a2c-renamed-kw", "file": "rl_blox/algorithm/a2c.py", "edits": [("    actions: jnp.ndarray,\n    advantages: jnp.ndarray,\n) -> tuple[jnp.ndarray, jnp.ndarray]:", "    actions: jnp.ndarray,\n    weights: jnp.ndarray,\n) -> tuple[jnp.ndarray, jnp.ndarray]:"),
                                                                                   ("    )(observations, actions, advantages, policy)", "    )(observations, actions, weights, policy)"),
                                                                                   ("            actions,\n            normalized_advantages,\n", "            actions,\n            weights=normalized_advantages,\n")]},
    {"id": "c12-b-reinforce-renamed-returns", "file": "rl_blox/algorithm/reinforce.py", "edits": [("    actions: jnp.ndarray,\n    returns: jnp.ndarray,\n    gamma_discount: jnp.ndarray | None = None,\n) -> tuple[jnp.ndarray, jnp.ndarray]:", "    actions: jnp.ndarray,\n    mc_returns: jnp.ndarray,\n    gamma_discount: jnp.ndarray | None = None,\n) -> tuple[jnp.ndarray, jnp.ndarray]:"),
                                                                                                    ("        baseline = jnp.zeros_like(returns)\n    weights = returns - baseline", "        baseline = jnp.zeros_like(mc_returns)\n    weights = mc_returns - baseline")]},
]

# R6 (shape worlds of the clipped pair) and the alpha() pieces beyond constant bounds
_DQ = "rl_blox/blox/double_qnet.py"
_DQ_CALL = "        return jnp.minimum(self.q1(*args, **kwargs), self.q2(*args, **kwargs))"
_DQ_MEAN = "        return 0.5 * (self.q1(*args, **kwargs) + self.q2(*args, **kwargs))"
_ALPHA = "        return jnp.exp(self.log_alpha.value)"
MUTANTS += [
    # joined on the last axis and reduced there: per sample for (N,1) critics, one value for the whole batch for (N,) critics
    {"id": "c12-pair-mean-hstack-last-axis", "file": _DQ, "rule": "R6", "find": _DQ_MEAN, "replace": "        return jnp.hstack((self.q1(*args, **kwargs), self.q2(*args, **kwargs))).mean(axis=-1, keepdims=True)"},
    # stacked on a new last axis but reduced over the first one (the batch)
    {"id": "c12-pair-min-over-batch-axis", "file": _DQ, "rule": "R6", "find": _DQ_CALL, "replace": "        both = jnp.stack((self.q1(*args, **kwargs), self.q2(*args, **kwargs)), axis=-1)\n        return both.min(axis=0)"},
    {"id": "c12-pair-global-min", "file": _DQ, "rule": "R6", "find": _DQ_CALL, "replace": "        return jnp.minimum(self.q1(*args, **kwargs), self.q2(*args, **kwargs)).min()"},
    # (N,) critics come back as (N,1): the result no longer has the heads' shape
    {"id": "c12-pair-shape-changed", "file": _DQ, "rule": "R6", "find": _DQ_CALL, "replace": "        return jnp.minimum(self.q1(*args, **kwargs).squeeze(), self.q2(*args, **kwargs).squeeze())[..., None]"},
    # alpha() saturates: beyond the bound it no longer follows log_alpha (zero temperature gradient)
    {"id": "c12-alpha-upper-bound", "file": _SAC, "rule": "R4", "find": _ALPHA, "replace": "        return jnp.exp(jnp.minimum(self.log_alpha.value, 3.0))"},
    {"id": "c12-alpha-clipped-module-bounds", "file": _SAC, "rule": "R4", "edits": [(_ALPHA, "        bounded = jnp.clip(self.log_alpha.value, _LOG_LO, _LOG_HI)\n        return jnp.exp(bounded)"),
                                                                                 ("class EntropyCoefficient(nnx.Module):", "_LOG_LO = -8.0\n_LOG_HI = 4.0\n\n\nclass EntropyCoefficient(nnx.Module):")]},
    {"id": "c12-alpha-value-clipped", "file": _SAC, "rule": "R4", "find": _ALPHA, "replace": "        return jnp.clip(jnp.exp(self.log_alpha.value), 1e-4, 10.0)"},
    {"id": "c12-alpha-class-scale-2", "file": _SAC, "rule": "R4", "edits": [(_ALPHA, "        return jnp.exp(self.SCALE * self.log_alpha.value)"), ("    log_alpha: nnx.Param[jnp.ndarray]\n", "    log_alpha: nnx.Param[jnp.ndarray]\n    SCALE: float = 2.0\n")]},
]
BENIGN += [
    # the pair stacked on a NEW axis and reduced over it: per sample in both conventions
    {"id": "c12-b-pair-stack-min", "file": _DQ, "find": _DQ_CALL, "replace": "        both = jnp.stack([self.q1(*args, **kwargs), self.q2(*args, **kwargs)], axis=-1)\n        return jnp.min(both, axis=-1)"},
    {"id": "c12-b-pair-where", "file": _DQ, "find": _DQ_CALL, "replace": "        a = self.q1(*args, **kwargs)\n        b = self.q2(*args, **kwargs)\n        return jnp.where(a < b, a, b)"},
    {"id": "c12-b-pair-mean-stack", "file": _DQ, "find": _DQ_MEAN, "replace": "        return jnp.mean(jnp.stack((self.q1(*args, **kwargs), self.q2(*args, **kwargs)), axis=0), axis=0)"},
    {"id": "c12-b-pair-helper", "file": _DQ, "edits": [(_DQ_CALL, "        a, b = self._both(*args, **kwargs)\n        return jnp.minimum(b, a)"),
                                                        ("    def mean(self", "    def _both(self, *args, **kwargs):\n        return self.q1(*args, **kwargs), self.q2(*args, **kwargs)\n\n    def mean(self")]},
    # a bound that never acts (exp > 0), a class-level constant that is the neutral factor
    {"id": "c12-b-alpha-nonnegative", "file": _SAC, "find": _ALPHA, "replace": "        return jnp.maximum(jnp.exp(self.log_alpha.value), 0.0)"},
    {"id": "c12-b-alpha-class-scale-1", "file": _SAC, "edits": [(_ALPHA, "        return jnp.exp(self.SCALE * self.log_alpha.value)"), ("    log_alpha: nnx.Param[jnp.ndarray]\n", "    log_alpha: nnx.Param[jnp.ndarray]\n    SCALE: float = 1.0\n")]},
]

# the A2C gradient step written as a local closure (weights are a free variable bound once by the routine)
_A2C = "rl_blox/algorithm/a2c.py"
_A2C_LOOP = ("    p_loss = 0.0\n    for _ in range(policy_gradient_steps):\n        p_loss, p_grad = a2c_policy_gradient(\n            policy,\n            observations,\n            actions,\n"
             "            normalized_advantages,\n        )\n        policy_optimizer.update(policy, p_grad)\n    return p_loss")
_A2C_CLOSURE = ("    def one_step(pi, opt):\n        value, grad = a2c_policy_gradient(pi, observations, actions, normalized_advantages)\n        opt.update(pi, grad)\n        return value\n\n"
                "    steps = [one_step] * policy_gradient_steps      # the closure is handed on as a value (not called by name)\n    p_loss = 0.0\n    for step in steps:\n        p_loss = step(policy, policy_optimizer)\n    return p_loss")
MUTANTS += [
    {"id": "c12-a2c-closure-no-centering", "file": _A2C, "rule": "R1", "edits": [(_A2C_LOOP, _A2C_CLOSURE), ("    normalized_advantages = (advantages - adv_mean) / adv_std", "    normalized_advantages = advantages / adv_std")]},
]
BENIGN += [
    {"id": "c12-b-a2c-closure-step", "file": _A2C, "find": _A2C_LOOP, "replace": _A2C_CLOSURE},
]

# the differentiated function is a partial application of the documented loss (partial(L, *a)(*b) is L(*a, *b)); keywords of a method
# call on an annotated parameter are bound by the method's signature
_AC = "rl_blox/algorithm/actor_critic.py"
_AC_SITE = "    return nnx.value_and_grad(\n        stochastic_policy_gradient_pseudo_loss, argnums=3\n    )(observations, actions, weights, policy)"
_DDPG_SITE = "    actor_loss_value, grads = nnx.value_and_grad(\n        deterministic_policy_gradient_loss, argnums=2\n    )(q, observation, policy)"
_MRQ = "rl_blox/algorithm/mrq.py"
_MRQ_ZSA = "    zsa = encoder.encode_zsa(zs, action)"
MUTANTS += [
    # the partial application fixes observation and action in each other's place
    {"id": "c12-ac-partial-roles-swapped", "file": _AC, "rule": "R1", "find": _AC_SITE,
     "replace": "    objective = partial(stochastic_policy_gradient_pseudo_loss, actions, observations, weights)\n    return nnx.value_and_grad(objective)(policy)"},
    # the policy is fixed by keyword and the remaining (first free) argument - the weights - is differentiated
    {"id": "c12-ac-partial-differentiates-weights", "file": _AC, "rule": "R1", "find": _AC_SITE,
     "replace": "    objective = partial(stochastic_policy_gradient_pseudo_loss, observations, actions, policy=policy)\n    return nnx.value_and_grad(objective)(weights)"},
    {"id": "c12-ddpg-partial-differentiates-observation", "file": "rl_blox/algorithm/ddpg.py", "rule": "R3", "find": _DDPG_SITE,
     "replace": "    actor_loss_value, grads = nnx.value_and_grad(partial(deterministic_policy_gradient_loss, q), argnums=0)(observation, policy)"},
    {"id": "c12-mrq-zsa-keywords-crossed", "file": _MRQ, "rule": "R3", "find": _MRQ_ZSA, "replace": "    zsa = encoder.encode_zsa(zs=action, action=zs)"},
]
BENIGN += [
    {"id": "c12-b-ac-partial-local", "file": _AC, "find": _AC_SITE,
     "replace": "    objective = partial(stochastic_policy_gradient_pseudo_loss, observations, actions, weights)\n    loss_and_grad = nnx.value_and_grad(objective)\n    return loss_and_grad(policy)"},
    {"id": "c12-b-ac-partial-keywords", "file": _AC, "find": _AC_SITE,
     "replace": "    return nnx.value_and_grad(partial(stochastic_policy_gradient_pseudo_loss, observations, actions), argnums=1)(weights, policy)"},
    {"id": "c12-b-ddpg-partial-in-place", "file": "rl_blox/algorithm/ddpg.py", "find": _DDPG_SITE,
     "replace": "    actor_loss_value, grads = nnx.value_and_grad(partial(deterministic_policy_gradient_loss, q), argnums=1)(observation, policy)"},
    {"id": "c12-b-mrq-zsa-keywords-any-order", "file": _MRQ, "find": _MRQ_ZSA, "replace": "    zsa = encoder.encode_zsa(action=action, zs=zs)"},
]

# R5 on arrays: the critic's output in the conventions (N,) and (N,1)
_PPO_VALUES = "    values = critic(observations).flatten()"
_SAC_Q = "    q_value = q(obs_act).squeeze()\n    actor_loss"
MUTANTS += [
    # a reduction over the last axis: the unit axis of an (N,1) critic, the batch of an (N,) critic
    {"id": "c12-ppo-values-reduced-over-last-axis", "file": _PPO, "rule": "R5", "find": _PPO_VALUES, "replace": "    values = critic(observations).max(axis=-1)"},
    {"id": "c12-sac-q-reduced-over-last-axis", "file": _SAC, "rule": "R5", "find": _SAC_Q, "replace": "    q_value = jnp.min(q(obs_act), axis=-1)\n    actor_loss"},
]
BENIGN += [
    {"id": "c12-b-ppo-values-ravel-local", "file": _PPO, "find": _PPO_VALUES, "replace": "    predicted = critic(observations)\n    values = jnp.ravel(predicted)"},
    {"id": "c12-b-ppo-values-like-returns", "file": _PPO, "find": _PPO_VALUES, "replace": "    values = critic(observations).reshape(returns.shape)"},
    {"id": "c12-b-sac-q-ravel", "file": _SAC, "find": _SAC_Q, "replace": "    q_value = q(obs_act).ravel()\n    actor_loss"},
    {"id": "c12-b-sac-q-reshape-like-logp", "file": _SAC, "find": _SAC_Q, "replace": "    q_value = q(obs_act).reshape(-1)\n    actor_loss"},
]
