"""C12 - actor objectives have the documented value and gradient."""
from __future__ import annotations

import ast

from ..loops import dotted
from ..nf import NF, Scope, Poly, parse_expr
from ..repo import Repo, loc, short, AnalysisError, positional_params, param_names, bind_call
from ..resolve import Resolver
from ..sem import same_ingredients, ingredient_tokens

BASIC_EXTRAS = {"sum", "mean", "max", "min", "maximum", "minimum", "abs", "square", "exp", "log", "sqrt", "q1", "q2", "stop_gradient", "squeeze", "axis", "jnp", "jax", "numpy", "lax"}
from ..sympath import enumerate_paths, PathEval
from .c05 import grad_sites

EXPLANATION = (
    "Each actor objective is normalised (def-use and callee inlining, squared errors as atoms) and compared, as a polynomial identity "
    "over its own parameters, with the documented formula written as a spec expression that is normalised by the same engine. The "
    "gradient clauses are structural: the differentiated argument of every actor update is the actor parameter (argnums through the "
    "loss signature); weights, advantages, old log-probabilities and Q-values enter the differentiated function as plain arguments "
    "computed outside it (constants of the gradient by construction), which is checked per CFG path for the three policy-gradient "
    "callers. PPO: the ratio is exp(logp - logp_old) with logp_old computed once before the epoch loop from the same (observation, "
    "action); min/clip form decides the clipped-side zero gradient. SAC temperature: loss = mean(-alpha*(logp + target)), alpha = "
    "exp(log_alpha), differentiated w.r.t. the log_alpha module only."
)
TRUSTED = ["tfp log_prob/entropy implementations (C13 checks which parameters they receive)", "jnp.minimum/clip/exp semantics; nnx.value_and_grad(argnums)"]
RULES = {
    "R1-pseudo-loss": "pseudo-loss == -mean(w * log pi(a|o)); at the three callers the weights are computed outside the differentiated function, from the documented quantities, and the policy is the differentiated argument",
    "R2-ppo": "ppo_loss == -mean(min(rho*A, clip(rho,1-c,1+c)*A)) + 0.5*mean((R-V)^2) - 0.01*mean(H); rho = exp(logp - logp_old); logp_old fixed before the epoch loop from the same data",
    "R3-dpg": "deterministic policy gradient losses == -mean(Q(o, pi(o))) (DDPG/TD3, TD7-SALE, MR.Q incl. the pre-activation penalty); differentiated argument is the actor",
    "R4-sac": "actor loss == mean(alpha*log pi(a|o) - Q(o,a)), a ~ pi(o); temperature loss == mean(-alpha()*(log pi + target_entropy)), alpha() = exp(log_alpha), differentiated w.r.t. log_alpha only",
    "R5-value-shapes": "the PPO value term subtracts arrays of equal rank (no (N,)-(N,1) broadcast)",
}

LQ = "rl_blox.blox.losses."
FORMULAS = {
    LQ + "stochastic_policy_gradient_pseudo_loss": ("R1-pseudo-loss", "-jnp.mean(weight * policy.log_probability(observation, action))"),
    LQ + "deterministic_policy_gradient_loss": ("R3-dpg", "-q(jnp.concatenate((observation, policy(observation)), axis=-1)).mean()"),
    "rl_blox.algorithm.td7.deterministic_policy_gradient_loss_sale": (
        "R3-dpg", "-critic.mean(jnp.concatenate((observation, actor(observation, embedding.state_embedding(observation))), axis=-1), "
                  "zs=embedding.state_embedding(observation), zsa=embedding.state_action_embedding(jnp.concatenate((embedding.state_embedding(observation), "
                  "actor(observation, embedding.state_embedding(observation))), axis=-1))).mean()"),
    "rl_blox.algorithm.sac.sac_actor_loss": (
        "R4-sac", "(alpha * policy.log_probability(observations, policy.sample(observations, action_key)) - "
                  "q(jnp.concatenate((observations, policy.sample(observations, action_key)), axis=-1)).squeeze()).mean()"),
    "rl_blox.algorithm.sac.sac_exploration_loss": (
        "R4-sac", "(-alpha() * (policy.log_probability(observations, policy.sample(observations, action_key)) + target_entropy)).mean()"),
    "rl_blox.algorithm.ppo.ppo_loss": (
        "R2-ppo", "-jnp.mean(jnp.minimum(jnp.exp(actor.log_probability(observations, actions) - old_logps) * advantages, "
                  "jnp.clip(jnp.exp(actor.log_probability(observations, actions) - old_logps), 1 - clip, 1 + clip) * advantages)) "
                  "+ 0.5 * jnp.mean((returns - critic(observations)) ** 2) - 0.01 * actor.entropy(observations).mean()"),
}
# (update routine, loss, actor parameter of the loss)
ACTOR_SITES = {
    "rl_blox.algorithm.ddpg.ddpg_update_actor": (LQ + "deterministic_policy_gradient_loss", ["policy"]),
    "rl_blox.algorithm.td7.td7_update_actor": ("rl_blox.algorithm.td7.deterministic_policy_gradient_loss_sale", ["actor"]),
    "rl_blox.algorithm.sac.sac_update_actor": ("rl_blox.algorithm.sac.sac_actor_loss", ["policy"]),
    "rl_blox.algorithm.sac._update_entropy_coefficient": ("rl_blox.algorithm.sac.sac_exploration_loss", ["alpha"]),
    "rl_blox.algorithm.ppo.update_ppo": ("rl_blox.algorithm.ppo.ppo_loss", ["actor", "critic"]),
    "rl_blox.algorithm.reinforce.reinforce_gradient": (LQ + "stochastic_policy_gradient_pseudo_loss", ["policy"]),
    "rl_blox.algorithm.actor_critic.actor_critic_policy_gradient": (LQ + "stochastic_policy_gradient_pseudo_loss", ["policy"]),
    "rl_blox.algorithm.a2c.a2c_policy_gradient": (LQ + "stochastic_policy_gradient_pseudo_loss", ["policy"]),
}


def _known_names():
    from ..expand import load_known
    return load_known()


def _env(fn):
    return {p: Poly.atom(p, {p}, {p}) for p in param_names(fn)}


def check_formula(ck, repo, nf, q, rule, spec):
    fn = repo.func(q)
    mi = fn._module
    env = _env(fn)
    got = nf.return_poly(q, env)
    if got.elems is not None:
        got = got.elems[0]
    want = nf.poly(parse_expr(spec), Scope(None, mi, env, q), None)
    ok = got == want
    why = ""
    if not ok:
        # functions with known, different meaning may replace documented ones (sum for mean, maximum for minimum, one critic for both);
        # anything else - in particular size-like quantities that could rebuild a mean from a sum - leaves the comparison undecided
        extra = ingredient_tokens(got) - ingredient_tokens(want)
        if not extra <= BASIC_EXTRAS:
            raise AnalysisError(f"{q}: objective `{got.canon()[:120]}` is not written with the documented building blocks (unrecognised form)")
        d = got - want
        why = f"objective differs from the documented one by `{d.canon()[:200]}`"
    ck.ob(rule, q, "objective-identity", ok, f"{got.canon()[:170]}", why, loc(mi, fn))
    return got


def run(ck, repo: Repo, tier: str):
    nf = NF(repo, inline_depth=4)
    nf.expand_squares = False
    res = Resolver(repo)
    for q, (rule, spec) in FORMULAS.items():
        ck.guard(check_formula, ck, repo, nf, q, rule, spec)
    ck.floor("objective-formulas", len(FORMULAS), 6)

    def _section_1():
        # ---- MR.Q policy loss (tuple result, scale_output helper) ---------------------------------------------
        q = "rl_blox.algorithm.mrq.mrq_policy_loss"
        fn = repo.func(q)
        env = _env(fn)
        got = nf.return_poly(q, env)
        ck.need(got.elems is not None, f"{q}: result is not a tuple")
        want = nf.poly(parse_expr("-q(encoder.encode_zsa(zs, policy.scale_output(policy.policy_net(zs)))).mean() + activation_weight * jnp.square(policy.policy_net(zs)).mean()"),
                       Scope(None, fn._module, env, q), None)
        ok = got.elems[0] == want
        ck.ob("R3-dpg", q, "objective-identity", ok, got.elems[0].canon()[:170], "" if ok else f"differs from -mean(q(zsa(zs, pi(zs)))) + w*mean(pre-activation^2) by `{(got.elems[0] - want).canon()[:160]}`", loc(fn._module, fn))
    ck.guard(_section_1)

    def _section_2():
        # ---- EntropyCoefficient ------------------------------------------------------------------------------------
        m = repo.method("rl_blox.algorithm.sac.EntropyCoefficient", "__call__", inherited=False)
        ck.need(m is not None, "EntropyCoefficient.__call__ not found")
        rets = [n for n in ast.walk(m[1]) if isinstance(n, ast.Return)]
        txt = ast.unparse(rets[0].value) if rets else ""
        ok = txt in ("jnp.exp(self.log_alpha.value)", "jnp.exp(self.log_alpha)")
        ck.ob("R4-sac", "rl_blox.algorithm.sac.EntropyCoefficient.__call__", "alpha-is-exp-log-alpha", ok, f"return {txt}", "" if ok else "alpha must be exp(log_alpha) (positive, trained in log space)", loc(m[1]._module, m[1]))
    ck.guard(_section_2)

    def _section_3():
        # ---- differentiated argument is the actor ---------------------------------------------------------------------
        for uq, (lq, actor_params) in ACTOR_SITES.items():
            fn = repo.func(uq)
            mi = fn._module
            sites = [s for s in grad_sites(repo, fn, mi)]
            ck.need(len(sites) == 1, f"{uq}: expected one gradient site, found {len(sites)}")
            s = sites[0]
            got_loss = repo.resolve_expr(mi, s["loss"]) if isinstance(s["loss"], (ast.Name, ast.Attribute)) else None
            okl = got_loss == lq
            if not okl and (got_loss is None or got_loss not in _known_names()):
                # a new wrapper / adapter around the loss: which objective is differentiated, and with respect to what, is not read here
                ck.incomplete.append(f"{uq}: differentiates `{short(s['loss'], 50)}`, not the documented loss function itself (unrecognised form)")
                continue
            rule = FORMULAS.get(lq, ("R3-dpg",))[0]
            ck.ob(rule, uq, "differentiates-documented-loss", okl, f"value_and_grad({short(s['loss'])})", "" if okl else f"documented objective is {lq.rsplit('.', 1)[1]}", loc(mi, s["app"]))
            if not okl:
                continue
            lp = positional_params(repo.func(lq))
            diffp = [lp[k] if k < len(lp) else None for k in s["argnums"]]
            ok = diffp == actor_params
            ck.ob(rule, uq, "gradient-reaches-actor-only", ok, f"argnums={s['argnums']} -> parameters {diffp} of {lq.rsplit('.', 1)[1]}",
                  "" if ok else f"the objective must be differentiated with respect to {actor_params} only", loc(mi, s["app"]))
            # the remaining arguments are bound by position to the loss parameters: role transfer
            b = {lp[i]: a for i, a in enumerate(s["app"].args) if i < len(lp)}
            for pname, a in b.items():
                # arguments must be plain values of the routine (names / attributes / calls evaluated outside the differentiated function)
                pass
            _role_transfer(ck, repo, nf, uq, fn, lq, b, s, rule)

        _pg_weights(ck, repo, nf)
        _ppo_update(ck, repo, nf)
        _value_shapes(ck, repo)
    ck.guard(_section_3)


def _value_shapes(ck, repo):
    """Symbolic shapes of the losses that combine critic outputs (N,1) with per-sample vectors (N,)."""
    from ..shapes import ShapeEngine
    cases = [
        ("rl_blox.algorithm.ppo.ppo_loss", {"observations": ("B", "O"), "actions": ("B", "A"), "advantages": ("B",), "returns": ("B",), "old_logps": ("B",), "clip": ()}, {"critic": 1}),
        ("rl_blox.blox.losses.mse_value_loss", {"observations": ("B", "O"), "v_target_values": ("B",)}, {"v": 1}),
        ("rl_blox.algorithm.sac.sac_actor_loss", {"observations": ("B", "O"), "alpha": ()}, {"q": 1}),
        ("rl_blox.algorithm.actor_critic.actor_critic_policy_gradient", {"observations": ("B", "O"), "actions": ("B", "A"), "next_observations": ("B", "O"), "rewards": ("B",), "gamma_discount": ("B",), "gamma": ()}, {"value_function": 1}),
        ("rl_blox.algorithm.reinforce.reinforce_gradient", {"observations": ("B", "O"), "actions": ("B", "A"), "returns": ("B",), "gamma_discount": ("B",)}, {"value_function": 1}),
    ]
    for q, env, mods in cases:
        fn = repo.func(q)
        se = ShapeEngine(repo)
        se.module_out = dict(mods)
        se.analyse(fn, fn._module, q, env)
        if not se.alarms:
            ck.ob("R5-value-shapes", q, "shapes", True, f"no shape alarm with {env} and critic output (B,1); {len(se.trace)} expressions typed", "", loc(fn._module, fn))
        for rel, line, kind, text, qual in se.alarms:
            ck.ob("R5-value-shapes", q, f"shape:{kind}", False, f"{kind}", text + " - the term is not the per-sample squared error / weight", f"{rel}:{line}")


# loss parameter -> position of the update routine's own parameter it must receive (recorded from the tree the checker was built
# for; positions, not names: renaming a parameter of the routine leaves the rule unchanged); string = attribute path of a parameter
ROLE_POS = {
    "rl_blox.algorithm.ddpg.ddpg_update_actor": {"q": 2, "observation": 3, "policy": 0},
    "rl_blox.algorithm.td7.td7_update_actor": {"embedding": (0, "embedding"), "critic": 2, "observation": 3, "actor": (0, "actor")},
    "rl_blox.algorithm.sac.sac_update_actor": {"policy": 0, "q": 2, "alpha": 5, "action_key": 3, "observations": 4},
    "rl_blox.algorithm.sac._update_entropy_coefficient": {"policy": 1, "target_entropy": 2, "action_key": 3, "observations": 4, "alpha": 5},
    "rl_blox.algorithm.ppo.update_ppo": {"actor": 0, "critic": 1, "observations": 4, "actions": 5},
    "rl_blox.algorithm.reinforce.reinforce_gradient": {"observation": 2, "action": 3, "policy": 0},
    "rl_blox.algorithm.actor_critic.actor_critic_policy_gradient": {"observation": 2, "action": 3, "policy": 0},
    "rl_blox.algorithm.a2c.a2c_policy_gradient": {"observation": 1, "action": 2, "weight": 3, "policy": 0},
}


def _role_transfer(ck, repo, nf, uq, fn, lq, b, site, rule):
    """Each loss parameter with a recorded counterpart must receive that parameter of the update routine (by position; local aliases
    and keyword / star calls are resolved by the normal form at the application)."""
    mi = fn._module
    up = param_names(fn)
    cfg = nf.cfg_of(fn)
    try:
        at = cfg.node_of(site["app"]).id
    except KeyError:
        at = None
    sc = Scope(cfg, mi, {p: Poly.atom(p, {p}, {p}) for p in up}, uq)
    for pname, pos in ROLE_POS.get(uq, {}).items():
        a = b.get(pname)
        if a is None:
            continue
        if isinstance(pos, tuple):
            want = f"{up[pos[0]]}.{pos[1]}" if pos[0] < len(up) else None
        else:
            want = up[pos] if pos < len(up) else None
        if want is None:
            raise AnalysisError(f"{uq}: signature has fewer parameters than when the role table was recorded")
        got = nf.poly(a, sc, at).canon() if at is not None else ast.unparse(a)
        ok = got == want
        ck.ob(rule, uq, f"arg:{pname}", ok, f"{pname} <- {got[:60]}", "" if ok else f"the loss parameter `{pname}` receives `{got[:60]}` instead of the routine's `{want}`", loc(mi, site["app"]))


def _pg_weights(ck, repo, nf):
    """Weights of the three policy-gradient callers, per CFG path, computed outside the differentiated function."""
    specs = {
        "rl_blox.algorithm.reinforce.reinforce_gradient": {
            "weight_arg": 2,
            "allowed": ["returns - value_function(observations)", "(returns - value_function(observations)) * gamma_discount",
                        "returns - jnp.zeros_like(returns)", "(returns - jnp.zeros_like(returns)) * gamma_discount", "returns", "returns * gamma_discount"],
        },
        "rl_blox.algorithm.actor_critic.actor_critic_policy_gradient": {
            "weight_arg": 2,
            "allowed": ["gamma_discount * (rewards + gamma * value_function(next_observations) - value_function(observations))"],
        },
        "rl_blox.algorithm.a2c.a2c_policy_gradient": {"weight_arg": 2, "allowed": ["advantages"]},
    }
    for q, sp in specs.items():
        fn = repo.func(q)
        mi = fn._module
        cfg = nf.cfg_of(fn)
        env = _env(fn)
        gs_ = grad_sites(repo, fn, mi)
        if not gs_:
            raise AnalysisError(f"{q}: no gradient site found (anchor vanished)")
        site = gs_[0]
        tgt = cfg.node_of(site["app"]).id
        paths = enumerate_paths(cfg, cfg.entry, {tgt})
        allowed = [nf.poly(parse_expr(a), Scope(None, mi, env, q), None) for a in sp["allowed"]]
        seen = set()
        for p in paths:
            pe = PathEval(nf, cfg, mi, q, env).run(p[:-1])
            if len(site["app"].args) <= sp["weight_arg"] or any(isinstance(a_, ast.Starred) for a_ in site["app"].args):
                raise AnalysisError(f"{q}: the weight argument of the gradient application `{short(site['app'], 60)}` is not passed positionally (unrecognised form)")
            w = pe.ev(site["app"].args[sp["weight_arg"]])
            c = w.canon()
            if c in seen:
                continue
            seen.add(c)
            ok = any(w == a for a in allowed)
            ck.ob("R1-pseudo-loss", q, f"weights:{c[:80]}", ok, f"weights = {c[:150]}", "" if ok else "weights are not the documented (returns - baseline)[* gamma^t] / gamma^t * TD error / advantages", loc(mi, site["app"]))
        ck.count("pg-weight-paths", len(paths))
    # a2c: advantages are normalised outside the differentiated function
    q = "rl_blox.algorithm.a2c.train_policy_a2c"
    fn = repo.func(q)
    mi = fn._module
    cfg = nf.cfg_of(fn)
    env = _env(fn)
    calls = [(n, c) for n in cfg.nodes if n.ast is not None and n.kind == "stmt" for c in ast.walk(n.ast) if isinstance(c, ast.Call) and dotted(c.func) == "a2c_policy_gradient"]
    ck.need(len(calls) == 1, f"{q}: a2c_policy_gradient call not found")
    n, c = calls[0]
    sc = Scope(cfg, mi, env, q)
    b = bind_call(repo.func("rl_blox.algorithm.a2c.a2c_policy_gradient"), c)
    got = nf.poly(b["advantages"], sc, n.id)
    want = nf.poly(parse_expr("(advantages - jnp.mean(advantages)) / (jnp.std(advantages) + 1e-8)"), Scope(None, mi, env, q), None)
    ck.ob("R1-pseudo-loss", q, "normalised-advantages", got == want, f"weights = {got.canon()[:140]}", "" if got == want else "A2C weights must be (A - mean A) / (std A + 1e-8)", loc(mi, c))


def _ppo_update(ck, repo, nf):
    q = "rl_blox.algorithm.ppo.update_ppo"
    fn = repo.func(q)
    mi = fn._module
    cfg = nf.cfg_of(fn)
    env = _env(fn)
    site = grad_sites(repo, fn, mi)[0]
    at = cfg.node_of(site["app"]).id
    lp = positional_params(repo.func("rl_blox.algorithm.ppo.ppo_loss"))
    if any(isinstance(a, ast.Starred) for a in site["app"].args) or any(k.arg is None for k in site["app"].keywords):
        raise AnalysisError(f"{q}: the loss is applied to packed arguments `{short(site['app'], 70)}` (cannot bind them to the parameters of ppo_loss)")
    b = {lp[i]: a for i, a in enumerate(site["app"].args) if i < len(lp)}
    b.update({k.arg: k.value for k in site["app"].keywords if k.arg in lp})
    sc = Scope(cfg, mi, env, q)
    where = loc(mi, site["app"])
    old = b.get("old_logps")
    if old is None:
        raise AnalysisError(f"{q}: no argument is bound to `old_logps` in `{short(site['app'], 70)}` (unrecognised form)")
    okn = isinstance(old, ast.Name)
    ck.ob("R2-ppo", q, "old-logp-is-variable", okn, f"old_logps <- {short(old) if old is not None else None}", "" if okn else "old log-probabilities must be a value computed before the epoch loop", where)
    if okn:
        ds = cfg.defs_of(at, old.id)
        loops = cfg.enclosing_loops(at)
        outside = len(ds) == 1 and ds[0].kind == "assign" and not (set(cfg.enclosing_loops(ds[0].node)) & set(loops))
        ck.ob("R2-ppo", q, "old-logp-fixed-before-epochs", outside, f"`{old.id}` defined at line {cfg.nodes[ds[0].node].lineno if ds else '?'}, epoch loop at line {cfg.nodes[loops[0]].lineno if loops else '?'}",
              "" if outside else "logp_old is recomputed inside the epoch loop: the ratio is always 1 and clipping never acts", where)
        v = nf.poly(old, sc, at)
        want = nf.poly(parse_expr("actor.log_probability(observation, action)"), Scope(None, mi, env, q), None)
        ck.ob("R2-ppo", q, "old-logp-same-data", v == want, f"logp_old = {v.canon()[:100]}", "" if v == want else "logp_old must be actor.log_probability(observation, action) on the same batch that is optimised", where)
    up_ = param_names(fn)
    for pname, pos in (("observations", 4), ("actions", 5)):
        a = b.get(pname)
        got_ = nf.poly(a, sc, at).canon() if a is not None else None
        ok = pos < len(up_) and got_ == up_[pos]
        ck.ob("R2-ppo", q, f"arg:{pname}", ok, f"{pname} <- {got_}", "" if ok else f"`{pname}` must be the rollout's `{up_[pos] if pos < len(up_) else '?'}`", where)
    # advantages / returns come from compute_gae in that order
    adv, ret = b.get("advantages"), b.get("returns")
    okg = False
    if isinstance(adv, ast.Name) and isinstance(ret, ast.Name):
        da, dr = cfg.defs_of(at, adv.id), cfg.defs_of(at, ret.id)
        if len(da) == 1 and len(dr) == 1 and da[0].node == dr[0].node and da[0].kind == "unpack" and da[0].path == (0,) and dr[0].path == (1,) \
                and isinstance(da[0].value, ast.Call) and dotted(da[0].value.func) == "compute_gae":
            okg = True
            g = da[0].value
            gfn = repo.func("rl_blox.blox.gae.compute_gae")
            gb = bind_call(gfn, g)
            got = {k: nf.poly(v, sc, da[0].node).canon() for k, v in gb.items()}
            want = {"rewards": "reward", "values": "critic(observation)", "next_values": "next_value", "terminateds": "terminated"}
            okk = got == want
            ck.ob("R2-ppo", q, "gae-arguments", okk, f"compute_gae({got})", "" if okk else f"expected {want}", loc(mi, g))
    if not okg and adv is not None and ret is not None:
        # other read forms of the same result: by field name, by index, through locals
        nfc = NF(repo, inline_depth=1, inline_calls=False)
        ca, cr = nfc.poly(adv, Scope(cfg, mi, env, q), at).canon(), nfc.poly(ret, Scope(cfg, mi, env, q), at).canon()
        pre = "rl_blox.blox.gae.compute_gae("
        for sfx_a, sfx_r in ((".advantages", ".returns"), ("[0]", "[1]")):
            if ca.startswith(pre) and cr.startswith(pre) and ca.endswith(sfx_a) and cr.endswith(sfx_r) and ca[: -len(sfx_a)] == cr[: -len(sfx_r)]:
                okg = True
                call_txt = ca[: -len(sfx_a)]
                m_ = nfc.meta.get(call_txt, {})
                gp = positional_params(repo.func("rl_blox.blox.gae.compute_gae"))
                got = {gp[i]: a_.canon() for i, a_ in enumerate(m_.get("args", [])) if i < len(gp)}
                got.update({k: v.canon() for k, v in m_.get("kws", {}).items()})
                want = {"rewards": "reward", "values": "critic(observation)", "next_values": "next_value", "terminateds": "terminated"}
                okk = {k: got.get(k) for k in want} == want
                ck.ob("R2-ppo", q, "gae-arguments", okk, f"compute_gae({got})", "" if okk else f"expected {want}", where)
        if not okg and (pre not in ca or pre not in cr):
            pass   # not derived from compute_gae at all: violation below
        elif not okg and not ((ca.endswith(".returns") or ca.endswith("[1]")) and (cr.endswith(".advantages") or cr.endswith("[0]"))):
            raise AnalysisError(f"{q}: advantages / returns are read from the GAE result as `{ca[-40:]}` / `{cr[-40:]}` (unrecognised idiom)")
    ck.ob("R2-ppo", q, "advantages-returns-from-gae", okg, f"advantages <- {short(adv) if adv is not None else None}, returns <- {short(ret) if ret is not None else None}",
          "" if okg else "advantages and returns must be the (first, second) result of compute_gae", where)


_L = "rl_blox/blox/losses.py"
MUTANTS = [
    {"id": "c12-pseudo-sign", "file": _L, "rule": "R1", "find": "    return -jnp.mean(weight * logp)", "replace": "    return jnp.mean(weight * logp)"},
    {"id": "c12-pseudo-sum", "file": _L, "rule": "R1", "find": "    return -jnp.mean(weight * logp)", "replace": "    return -jnp.sum(weight * logp)"},
    {"id": "c12-pseudo-swapped-args", "file": _L, "rule": "R1", "find": "    logp = policy.log_probability(observation, action)", "replace": "    logp = policy.log_probability(action, observation)"},
    {"id": "c12-dpg-sign", "file": _L, "rule": "R3", "find": "    return -q(obs_act).mean()", "replace": "    return q(obs_act).mean()"},
    {"id": "c12-ddpg-argnums", "file": "rl_blox/algorithm/ddpg.py", "rule": "R3", "find": "deterministic_policy_gradient_loss, argnums=2", "replace": "deterministic_policy_gradient_loss, argnums=(0, 2)", "accept_error": True},
    {"id": "c12-reinforce-weights-plus", "file": "rl_blox/algorithm/reinforce.py", "rule": "R1", "find": "    weights = returns - baseline", "replace": "    weights = returns + baseline"},
    {"id": "c12-reinforce-discount-twice", "file": "rl_blox/algorithm/reinforce.py", "rule": "R1", "find": "        weights *= gamma_discount", "replace": "        weights *= gamma_discount * gamma_discount"},
    {"id": "c12-ac-td-sign", "file": "rl_blox/algorithm/actor_critic.py", "rule": "R1", "find": "    td_bootstrap_estimate = rewards + gamma * v_next - v", "replace": "    td_bootstrap_estimate = rewards + gamma * v - v_next"},
    {"id": "c12-a2c-no-centering", "file": "rl_blox/algorithm/a2c.py", "rule": "R1", "find": "    normalized_advantages = (advantages - adv_mean) / adv_std", "replace": "    normalized_advantages = advantages / adv_std"},
    {"id": "c12-ppo-maximum", "file": "rl_blox/algorithm/ppo.py", "rule": "R2", "find": "    policy_loss = -jnp.mean(jnp.minimum(surrogate1, surrogate2))", "replace": "    policy_loss = -jnp.mean(jnp.maximum(surrogate1, surrogate2))"},
    {"id": "c12-ppo-clip-range", "file": "rl_blox/algorithm/ppo.py", "rule": "R2", "find": "jnp.clip(ratios, 1 - clip, 1 + clip)", "replace": "jnp.clip(ratios, 1 - clip, 1 + 2 * clip)"},
    {"id": "c12-ppo-ratio-inverted", "file": "rl_blox/algorithm/ppo.py", "rule": "R2", "find": "    ratios = jnp.exp(logps - old_logps)", "replace": "    ratios = jnp.exp(old_logps - logps)"},
    {"id": "c12-ppo-entropy-sign", "file": "rl_blox/algorithm/ppo.py", "rule": "R2", "find": "        - 0.01 * actor.entropy(observations).mean()", "replace": "        + 0.01 * actor.entropy(observations).mean()"},
    {"id": "c12-ppo-logp-in-loop", "file": "rl_blox/algorithm/ppo.py", "rule": "R2", "find": "    logp = actor.log_probability(observation, action)\n    loss_grad_fn = nnx.value_and_grad(ppo_loss, argnums=(0, 1))\n\n    for _ in range(epochs):\n",
     "replace": "    loss_grad_fn = nnx.value_and_grad(ppo_loss, argnums=(0, 1))\n\n    for _ in range(epochs):\n        logp = actor.log_probability(observation, action)\n"},
    {"id": "c12-ppo-adv-ret-swapped", "file": "rl_blox/algorithm/ppo.py", "rule": "R2", "find": "            actor, critic, logp, observation, action, advs, returns", "replace": "            actor, critic, logp, observation, action, returns, advs"},
    {"id": "c12-sac-actor-sign", "file": "rl_blox/algorithm/sac.py", "rule": "R4", "find": "    actor_loss = (alpha * log_prob - q_value).mean()", "replace": "    actor_loss = (q_value - alpha * log_prob).mean()"},
    {"id": "c12-sac-alpha-sign", "file": "rl_blox/algorithm/sac.py", "rule": "R4", "find": "    return (-alpha() * (log_prob + target_entropy)).mean()", "replace": "    return (alpha() * (log_prob + target_entropy)).mean()"},
    {"id": "c12-sac-alpha-minus-target", "file": "rl_blox/algorithm/sac.py", "rule": "R4", "find": "    return (-alpha() * (log_prob + target_entropy)).mean()", "replace": "    return (-alpha() * (log_prob - target_entropy)).mean()"},
    {"id": "c12-sac-alpha-not-exp", "file": "rl_blox/algorithm/sac.py", "rule": "R4", "find": "        return jnp.exp(self.log_alpha.value)", "replace": "        return jnp.abs(self.log_alpha.value)"},
    {"id": "c12-sac-exploration-wrt-policy", "file": "rl_blox/algorithm/sac.py", "rule": "R4", "find": "        sac_exploration_loss, argnums=4", "replace": "        sac_exploration_loss, argnums=0"},
    {"id": "c12-td7-q1-only", "file": "rl_blox/algorithm/td7.py", "rule": "R3", "find": "    return -critic.mean(obs_act, zs=zs, zsa=zsa).mean()", "replace": "    return -critic.q1(obs_act, zs=zs, zsa=zsa).mean()"},
    {"id": "c12-mrq-penalty-sign", "file": "rl_blox/algorithm/mrq.py", "rule": "R3", "find": "    policy_loss = dpg_loss + activation_weight * policy_regularization", "replace": "    policy_loss = dpg_loss - activation_weight * policy_regularization"},
    {"id": "c12-mrq-penalty-on-action", "file": "rl_blox/algorithm/mrq.py", "rule": "R3", "find": "    policy_regularization = jnp.square(activation).mean()", "replace": "    policy_regularization = jnp.square(action).mean()"},
]
MUTANTS += [
    {"id": "c12-ppo-value-no-flatten", "file": "rl_blox/algorithm/ppo.py", "rule": "R5", "find": "    values = critic(observations).flatten()", "replace": "    values = critic(observations)"},
    {"id": "c12-value-loss-no-squeeze", "file": _L, "rule": "R5", "find": "    values = v(observations).squeeze()  # squeeze Nx1-D -> N-D", "replace": "    values = v(observations)"},
    {"id": "c12-ac-no-squeeze", "file": "rl_blox/algorithm/actor_critic.py", "rule": "R5", "find": "    v_next = value_function(next_observations).squeeze()", "replace": "    v_next = value_function(next_observations)"},
    {"id": "c12-sac-actor-no-squeeze", "file": "rl_blox/algorithm/sac.py", "rule": "R5", "find": "    q_value = q(obs_act).squeeze()\n    actor_loss", "replace": "    q_value = q(obs_act)\n    actor_loss"},
]
BENIGN = [
    {"id": "c12-b-pseudo-mean-neg", "file": _L, "find": "    return -jnp.mean(weight * logp)", "replace": "    return jnp.mean(-logp * weight)"},
    {"id": "c12-b-ppo-commuted", "file": "rl_blox/algorithm/ppo.py", "find": "    surrogate1 = ratios * advantages", "replace": "    surrogate1 = advantages * ratios"},
    {"id": "c12-b-ppo-value-sq", "file": "rl_blox/algorithm/ppo.py", "find": "    value_loss = jnp.mean((returns - values) ** 2)", "replace": "    value_loss = jnp.mean(jnp.square(values - returns))"},
    {"id": "c12-b-sac-distribute", "file": "rl_blox/algorithm/sac.py", "find": "    actor_loss = (alpha * log_prob - q_value).mean()", "replace": "    actor_loss = (alpha * log_prob).mean() - q_value.mean()"},
    {"id": "c12-b-reinforce-weights-local", "file": "rl_blox/algorithm/reinforce.py", "find": "    weights = returns - baseline\n", "replace": "    advantages = returns - baseline\n    weights = advantages\n"},
]
