"""C19 - saved models and buffers reload to identical state (necessary structural conditions only)."""
from __future__ import annotations

import ast
from ..expand import clone

from ..cfg import CFG
from ..loops import dotted
from ..nf import NF, Scope, Poly
from ..repo import Repo, loc, short, AnalysisError, positional_params, param_names

EXPLANATION = (
    "Round-trip equality is a runtime property and is NOT decided. Decided are necessary conditions, by dataflow rather than by text: "
    "(R1) pickling symmetry of every buffer class. __getstate__ must build its result from a *copy* of the instance dict; every key it removes "
    "must be an attribute that __setstate__ rebuilds, after restoring the dict, with an expression whose normal form equals the one in "
    "__init__ (a derived attribute such as the namedtuple type); an attribute bound to a dynamically created class must be removed "
    "(it cannot be pickled); a value it *transforms* (d[k] = f(..)) is followed into f: truncating the storage at anything but the fill level "
    "loses valid rows. __setstate__ may, besides rebuilding removed attributes, only reset lazily recomputed caches; any other write to "
    "restored state - directly or through a method whose transitive write set (effect summary through self.<attr> types) is non-empty - "
    "changes what was saved. (R2) the pickle helper dumps the unfiltered state half of nnx.split(net) (provenance of the dumped object through "
    "reaching definitions and device moves) and load merges the loaded object with the given graphdef on every path to the return. "
    "(R3) both checkpoint writers save the unfiltered module state and wait for completion before publishing the path; restore reads into a "
    "target that is the model's own state structure (an untargeted restore returns string-keyed dicts whose leaf order is the sorted key "
    "order: '10' < '2') and merges the model's graphdef with nothing but the restored state."
)
TRUSTED = ["pickle round-trips plain attributes (ints, numpy arrays, OrderedDict, PriorityBuffer objects)", "nnx.split / nnx.merge are inverse for a given graphdef", "Orbax StandardCheckpointer.save / restore(path, target) are inverse for a given target structure"]
RULES = {
    "R1-pickling-symmetry": "__getstate__ works on a copy, removes exactly derived / unpicklable attributes, transforms nothing lossy; __setstate__ restores the dict first, rebuilds removed attributes as __init__ does and writes nothing else (lazy caches excepted)",
    "R2-pickle-helper": "save_pickle dumps the unfiltered state of nnx.split(net); load_pickle returns nnx.merge(graphdef, loaded state) on every path",
    "R3-checkpoints": "checkpoint writers save the unfiltered state and wait; restore_checkpoint restores into the model's own state structure and merges graphdef with the restored state only",
}

RB = "rl_blox.blox.replay_buffer."
MODQ = "rl_blox.blox.replay_buffer"
DYN_CTORS = ("namedtuple", "collections.namedtuple", "type", "dataclasses.make_dataclass", "make_dataclass")
COPY_FORMS = ("dict(self.__dict__)", "self.__dict__.copy()", "{**self.__dict__}", "copy.copy(self.__dict__)", "copy(self.__dict__)", "dict(vars(self))", "vars(self).copy()")


# ---------------------------------------------------------------------------------------------------------------------------
def _init_attr_values(repo, cq):
    """attribute -> (value AST, module) of the last `self.X = ...` in __init__ along the MRO (most derived wins)."""
    out = {}
    for c in repo.mro(cq)[::-1]:
        m = repo.method(c, "__init__", inherited=False)
        if not m:
            continue
        # single-assignment locals (temporaries of expanded helpers) are read with their value
        stores = {}
        for n in ast.walk(m[1]):
            if isinstance(n, ast.Name) and isinstance(n.ctx, ast.Store):
                stores[n.id] = stores.get(n.id, 0) + 1
        temps = {}
        for n in ast.walk(m[1]):
            if isinstance(n, ast.Assign) and len(n.targets) == 1 and isinstance(n.targets[0], ast.Name) and stores.get(n.targets[0].id) == 1 and n.targets[0].id not in param_names(m[1]):
                temps[n.targets[0].id] = n.value

        class _Sub(ast.NodeTransformer):
            depth = 0

            def visit_Name(self_inner, n):
                if isinstance(n.ctx, ast.Load) and n.id in temps and self_inner.depth < 5:
                    self_inner.depth += 1
                    r = self_inner.visit(clone(temps[n.id]))
                    self_inner.depth -= 1
                    return r
                return n
        for n in ast.walk(m[1]):
            if isinstance(n, (ast.Assign, ast.AnnAssign)) and n.value is not None:
                for t in (n.targets if isinstance(n, ast.Assign) else [n.target]):
                    if isinstance(t, ast.Attribute) and dotted(t.value) == "self":
                        v = n.value
                        if temps and any(isinstance(x, ast.Name) and x.id in temps for x in ast.walk(v)):
                            v = ast.fix_missing_locations(ast.copy_location(_Sub().visit(clone(v)), n.value))
                        out[t.attr] = (v, repo.cls(c)._module)
    return out


def _unwrap_iter(v):
    """namedtuple("T", list(d)) == namedtuple("T", tuple(d)) == namedtuple("T", d): the field names are the iteration order of d."""
    import copy
    v = clone(v)
    if isinstance(v, ast.Call) and dotted(v.func) in DYN_CTORS and len(v.args) >= 2:
        a = v.args[1]
        while isinstance(a, ast.Call) and dotted(a.func) in ("list", "tuple") and len(a.args) == 1 and not a.keywords:
            a = a.args[0]
        if isinstance(a, ast.Call) and isinstance(a.func, ast.Attribute) and a.func.attr == "keys" and not a.args:
            a = a.func.value
        v.args[1] = a
    return v


def _is_dynamic_class(v):
    return (isinstance(v, ast.Call) and dotted(v.func) in DYN_CTORS) or isinstance(v, ast.Lambda)


def _attr_types(repo, cq):
    out = {}
    for a, (v, mi) in _init_attr_values(repo, cq).items():
        if isinstance(v, ast.Call) and isinstance(v.func, ast.Name):
            r = repo.resolve_name(mi, v.func.id)
            if r and r.startswith("rl_blox.") and repo.has(r):
                out[a] = r
    return out


def _write_set(repo, cq, meth, seen=None, prefix=""):
    """Transitive set of attribute paths of `self` written by cq.meth (through self.m() and self.<typed attr>.m())."""
    seen = seen if seen is not None else set()
    if (cq, meth) in seen:
        return set()
    seen.add((cq, meth))
    m = repo.method(cq, meth)
    if m is None:
        raise AnalysisError(f"{cq}.{meth}: method not found while summarising the effects of __setstate__")
    fn = m[1]
    types = _attr_types(repo, cq)
    out = set()
    for n in ast.walk(fn):
        tg = []
        if isinstance(n, ast.Assign):
            tg = n.targets
        elif isinstance(n, (ast.AugAssign, ast.AnnAssign)):
            tg = [n.target]
        for t in tg:
            for tt in (t.elts if isinstance(t, (ast.Tuple, ast.List)) else [t]):
                base = tt
                while isinstance(base, ast.Subscript):
                    base = base.value
                d = dotted(base)
                if d and d.startswith("self."):
                    out.add(prefix + d[5:])
        if isinstance(n, ast.Call) and isinstance(n.func, ast.Attribute):
            recv = dotted(n.func.value)
            if recv == "self":
                out |= _write_set(repo, cq, n.func.attr, seen, prefix)
            elif recv and recv.startswith("self.") and recv.count(".") == 1 and recv[5:] in types:
                out |= _write_set(repo, types[recv[5:]], n.func.attr, seen, prefix + recv[5:] + ".")
            elif recv and recv.startswith("self.") and n.func.attr in ("append", "extend", "add", "update", "clear", "pop", "remove", "insert", "fill", "sort"):
                out.add(prefix + recv[5:])
    return out


def _is_lazy_cache(repo, cq, attr):
    """Every write of self.<attr> outside __init__/__setstate__ is `None` (invalidate) or sits under `if self.<attr> is None` (recompute):
    the attribute is a derived cache, resetting it to its constructor value does not change behaviour."""
    n_sites = 0
    for c in repo.mro(cq) + [s for s in repo.subclasses(cq)]:
        cls = repo.cls(c)
        for meth in cls.body:
            if not isinstance(meth, ast.FunctionDef) or meth.name in ("__init__", "__setstate__"):
                continue
            cfg = CFG(meth)
            for node in cfg.nodes:
                s = node.ast
                if node.kind != "stmt" or not isinstance(s, (ast.Assign, ast.AugAssign)):
                    continue
                tgs = s.targets if isinstance(s, ast.Assign) else [s.target]
                for t in tgs:
                    base = t
                    while isinstance(base, ast.Subscript):
                        base = base.value
                    if dotted(base) != f"self.{attr}":
                        continue
                    n_sites += 1
                    if isinstance(s, ast.Assign) and isinstance(s.value, ast.Constant) and s.value.value is None and t is base:
                        continue
                    guarded = any(cfg.nodes[b].kind == "test" and lab is True and ast.unparse(cfg.nodes[b].ast.test) == f"self.{attr} is None" for b, lab in cfg.control_deps(node.id))
                    if not guarded:
                        return False
    return n_sites > 0


def _slice_bounds(repo, mi, e, params=None, depth=0):
    """Upper bounds of slices `x[:B]` applied in expression e, following calls into repo functions (argument substitution by name)."""
    out = []
    for n in ast.walk(e):
        if isinstance(n, ast.Subscript) and isinstance(n.slice, ast.Slice) and n.slice.lower is None and n.slice.upper is not None:
            b = n.slice.upper
            if params and isinstance(b, ast.Name) and b.id in params:
                b = params[b.id]
            out.append(b)
        if isinstance(n, ast.Call) and isinstance(n.func, ast.Name) and depth < 2:
            r = repo.resolve_name(mi, n.func.id)
            if r and repo.has(r) and r.startswith("rl_blox."):
                try:
                    f = repo.func(r)
                except Exception:
                    continue
                pp = positional_params(f)
                sub = {p: a for p, a in zip(pp, n.args)}
                sub.update({k.arg: k.value for k in n.keywords if k.arg})
                if params:
                    sub = {k: (params.get(v.id, v) if isinstance(v, ast.Name) else v) for k, v in sub.items()}
                for st in f.body:
                    out += _slice_bounds(repo, f._module, st, sub, depth + 1)
    return out


def _const_names(repo, cq, e):
    """Tuple of strings a class-level constant (``self.NAME`` / ``cls.NAME`` / ``Class.NAME``) or a literal display holds, else None."""
    if isinstance(e, (ast.Tuple, ast.List)) and all(isinstance(x, ast.Constant) and isinstance(x.value, str) for x in e.elts):
        return [x.value for x in e.elts]
    d = dotted(e)
    if isinstance(e, ast.Name):
        # a module-level constant of the class's module (or of a base class's module)
        for c in repo.mro(cq):
            try:
                mi_ = repo.cls(c)._module
            except Exception:
                continue
            for n in mi_.tree.body:
                if isinstance(n, ast.Assign) and any(isinstance(t, ast.Name) and t.id == e.id for t in n.targets) and isinstance(n.value, (ast.Tuple, ast.List)):
                    return _const_names(repo, cq, n.value)
        return None
    if d and d.count(".") == 1 and d.split(".")[0] in ("self", "cls", "type(self)"):
        name = d.split(".")[1]
        for c in repo.mro(cq):
            for n in repo.cls(c).body:
                if isinstance(n, ast.Assign) and any(isinstance(t, ast.Name) and t.id == name for t in n.targets):
                    return _const_names(repo, cq, n.value) if isinstance(n.value, (ast.Tuple, ast.List)) else None
        # never assigned through self anywhere?  (an instance attribute of the same name would shadow the class constant)
    return None


def _getstate(ck, repo, nf, cq, gq, g, init_vals):
    """Analyse one __getstate__; returns (removed keys, transformed keys) or raises AnalysisError on an unrecognised idiom."""
    gmi = repo.cls(gq)._module
    site = cq
    body = [x for x in g.body if not (isinstance(x, ast.Expr) and isinstance(x.value, ast.Constant))]
    rets = [x for x in ast.walk(g) if isinstance(x, ast.Return)]
    ck.need(len(rets) == 1 and isinstance(rets[0].value, ast.Name), f"{gq}.__getstate__: expected a single `return <dict name>` (unrecognised idiom)")
    dn = rets[0].value.id
    defs = [x for x in body if isinstance(x, ast.Assign) and dotted(x.targets[0]) == dn]
    # `ret = state; return ret`: the returned name is an alias of the dict that was built
    alias_stmts = []
    for _ in range(3):
        if len(defs) == 1 and isinstance(defs[0].value, ast.Name) and body and defs[0] is body[-2 if isinstance(body[-1], ast.Return) else -1]:
            alias_stmts.append(defs[0])
            dn = defs[0].value.id
            defs = [x for x in body if isinstance(x, ast.Assign) and dotted(x.targets[0]) == dn]
        else:
            break
    body = [x for x in body if not any(x is a_ for a_ in alias_stmts)]
    ck.need(len(defs) == 1, f"{gq}.__getstate__: `{dn}` has {len(defs)} definitions (unrecognised idiom)")
    src = ast.unparse(defs[0].value)
    is_copy = src in COPY_FORMS
    live = src in ("self.__dict__", "vars(self)")
    ck.need(is_copy or live, f"{gq}.__getstate__: `{dn} = {src}` is neither a copy of the instance dict nor the dict itself (unrecognised idiom)")
    ck.ob("R1-pickling-symmetry", site, "copies-dict", is_copy, f"{dn} = {src}", "" if is_copy else "__getstate__ edits the live instance dict: saving removes attributes from the object that keeps being used", loc(gmi, defs[0]))
    removed, transformed = [], {}
    for x in body:
        if x is defs[0] or isinstance(x, ast.Return):
            continue
        if isinstance(x, ast.Delete):
            for t in x.targets:
                ck.need(isinstance(t, ast.Subscript) and dotted(t.value) == dn and isinstance(t.slice, ast.Constant), f"{gq}.__getstate__: `{short(x)}` (unrecognised idiom)")
                removed.append(t.slice.value)
        elif isinstance(x, ast.Expr) and isinstance(x.value, ast.Call) and isinstance(x.value.func, ast.Attribute) and dotted(x.value.func.value) == dn and x.value.func.attr == "pop" \
                and x.value.args and isinstance(x.value.args[0], ast.Constant):
            removed.append(x.value.args[0].value)
        elif isinstance(x, ast.Assign) and isinstance(x.targets[0], ast.Subscript) and dotted(x.targets[0].value) == dn and isinstance(x.targets[0].slice, ast.Constant):
            transformed[x.targets[0].slice.value] = x.value
        elif isinstance(x, ast.For) and isinstance(x.target, ast.Name) and not x.orelse and len(x.body) == 1 and _const_names(repo, cq, x.iter) is not None \
                and ((isinstance(x.body[0], ast.Delete) and len(x.body[0].targets) == 1 and isinstance(x.body[0].targets[0], ast.Subscript) and dotted(x.body[0].targets[0].value) == dn
                      and isinstance(x.body[0].targets[0].slice, ast.Name) and x.body[0].targets[0].slice.id == x.target.id)
                     or (isinstance(x.body[0], ast.Expr) and isinstance(x.body[0].value, ast.Call) and isinstance(x.body[0].value.func, ast.Attribute) and x.body[0].value.func.attr == "pop"
                         and dotted(x.body[0].value.func.value) == dn and x.body[0].value.args and isinstance(x.body[0].value.args[0], ast.Name) and x.body[0].value.args[0].id == x.target.id)):
            # `for k in <constant tuple of names>: del d[k]`
            removed += _const_names(repo, cq, x.iter)
        else:
            names = {n.id for n in ast.walk(x) if isinstance(n, ast.Name)}
            if dn in names or any(isinstance(n, ast.Attribute) and dotted(n) and dotted(n).startswith("self.") for n in ast.walk(x) if isinstance(getattr(n, "ctx", None), ast.Store)):
                raise AnalysisError(f"{gq}.__getstate__: `{short(x, 70)}` manipulates the pickled state in a way this check does not model")
    # unpicklable attributes must be removed
    dyn = sorted(a for a, (v, _) in init_vals.items() if _is_dynamic_class(v))
    miss = sorted(set(dyn) - set(removed))
    ck.ob("R1-pickling-symmetry", site, "unpicklable-removed", not miss, f"__getstate__ removes {sorted(removed)}; dynamically created classes / lambdas: {dyn}", "" if not miss else f"`{miss}` holds a dynamically created class and stays in the pickled state: pickling fails", loc(gmi, g))
    # entries added under a new key (a packed record): every ordinary attribute that was removed must at least be an input of one of
    # them - what is not handed to the packing code cannot be in the pickled state, and nothing can bring it back on reload
    added = {k: v for k, v in transformed.items() if k not in init_vals}
    if added:
        inputs = {dotted(n)[5:].split(".")[0] for v in added.values() for n in ast.walk(v) if isinstance(n, ast.Attribute) and dotted(n) and dotted(n).startswith("self.")}
        whole = any(isinstance(n, ast.Name) and n.id == "self" and not isinstance(getattr(n, "_parent", None), ast.Attribute) for v in added.values() for n in ast.walk(v))
        for a in sorted(set(removed)):
            if a in init_vals and not _is_dynamic_class(init_vals[a][0]) and not whole:
                ok_in = a in inputs
                ck.ob("R1-pickling-symmetry", site, f"removed-data-is-packed:{a}", ok_in, f"`{a}` removed from the pickled dict; packed entries {sorted(added)} are built from {sorted(inputs)}",
                      "" if ok_in else f"`{a}` is dropped from the pickled state and is not an input of the packed record: its value at save time is lost, so the reloaded object cannot continue like the saved one (it can only be guessed from other fields)", loc(gmi, g))
    for k, v in transformed.items():
        same = ast.unparse(v) == f"self.{k}"
        if same:
            continue
        bounds = _slice_bounds(repo, gmi, v)
        sc = Scope(None, gmi, {}, gq)
        btxt = [nf.poly(b, sc, None).canon() for b in bounds]
        fill = {"self.current_len", "len(self)", "self.buffer_size"}
        bad = [b for b in btxt if b not in fill and "insert_idx" in b]
        if bad:
            ck.ob("R1-pickling-symmetry", site, f"transformed:{k}", False, f"d['{k}'] = {short(v, 70)} truncates at {bad}",
                  f"the pickled `{k}` is cut at the write cursor: once the ring has wrapped (insert_idx < current_len) the valid rows behind the cursor are not saved and reload as uninitialised memory", loc(gmi, v))
        else:
            raise AnalysisError(f"{gq}.__getstate__: the pickled `{k}` is transformed (`{short(v, 60)}`): whether __setstate__ inverts it is a round-trip question this check cannot decide")
    return sorted(set(removed)), transformed


def _setstate_chain(repo, cq):
    """Statements of __setstate__ with super().__setstate__(d) calls expanded, each tagged with its defining class."""
    out = []

    def walk(c, after):
        m = repo.method(c, "__setstate__") if after is None else None
        if after is not None:
            mro = repo.mro(c)
            m = None
            for p in mro[mro.index(after) + 1:]:
                m = repo.method(p, "__setstate__", inherited=False)
                if m:
                    break
        if m is None:
            raise AnalysisError(f"{c}.__setstate__: super().__setstate__ has no target")
        owner, fn = m[0], m[1]
        for x in fn.body:
            if isinstance(x, ast.Expr) and isinstance(x.value, ast.Constant):
                continue
            if isinstance(x, ast.Expr) and isinstance(x.value, ast.Call) and ast.unparse(x.value.func) == "super().__setstate__":
                walk(c, owner)
            else:
                out.append((owner, fn, x))
    walk(cq, None)
    return out


def r1_buffers(ck, repo, nf):
    mod = repo.module(MODQ)
    classes = [f"{MODQ}.{n}" for n, d, _m2 in repo.module_members(MODQ) if isinstance(d, ast.ClassDef)]
    n_pairs = [0]

    def one_class(cq):
        cls = repo.cls(cq)
        mi = cls._module
        init_vals = _init_attr_values(repo, cq)
        dyn = sorted(a for a, (v, _) in init_vals.items() if _is_dynamic_class(v))
        gs, ss = repo.method(cq, "__getstate__"), repo.method(cq, "__setstate__")
        if not init_vals and repo.subclasses(cq):
            return     # a mixin without constructor: its state pair is judged in the classes that inherit it
        if gs is None and ss is None:
            ck.ob("R1-pickling-symmetry", cq, "default-pickling-ok", not dyn, f"dynamic-class / lambda attributes: {dyn}", "" if not dyn else "a class pickled by default holds an unpicklable attribute", loc(mi, cls))
            return
        ok = gs is not None and ss is not None
        ck.ob("R1-pickling-symmetry", cq, "has-state-pair", ok, f"__getstate__ {'from ' + gs[0].rsplit('.', 1)[1] if gs else 'missing'}; __setstate__ {'from ' + ss[0].rsplit('.', 1)[1] if ss else 'missing'}",
              "" if ok else "__getstate__ and __setstate__ must come as a pair", loc(mi, cls))
        if not ok:
            return
        n_pairs[0] += 1
        removed, transformed = _getstate(ck, repo, nf, cq, gs[0], gs[1], init_vals)
        # ---- __setstate__ ----
        chain = _setstate_chain(repo, cq)
        restored_at = None
        rebuilt = {}
        temps = {}

        class _Sub(ast.NodeTransformer):
            def visit_Name(self_inner, n):
                if isinstance(n.ctx, ast.Load) and n.id in temps:
                    import copy as _copy
                    return _copy.deepcopy(temps[n.id])
                return n
        for i, (owner, fn, x) in enumerate(chain):
            omi = repo.cls(owner)._module
            pps_ = [p_ for p_ in positional_params(fn) if p_ != "self"]
            if isinstance(x, ast.Assign) and len(x.targets) == 1 and isinstance(x.targets[0], ast.Name) and x.targets[0].id not in pps_ \
                    and not any(isinstance(c_, ast.Call) and isinstance(c_.func, ast.Attribute) and c_.func.attr in ("pop", "update", "clear", "setdefault") for c_ in ast.walk(x.value)):
                # a local temporary (of an expanded helper): later uses are read with its value
                import copy as _copy
                temps[x.targets[0].id] = _Sub().visit(_copy.deepcopy(x.value))
                continue
            if temps:
                import copy as _copy
                x2 = _Sub().visit(_copy.deepcopy(x))
                ast.copy_location(x2, x)
                ast.fix_missing_locations(x2)
                x = x2
            txt = ast.unparse(x)
            pps = [p_ for p_ in positional_params(fn) if p_ != "self"]
            dparam = pps[0] if pps else "d"
            if txt in (f"self.__dict__.update({dparam})", f"self.__dict__ = {dparam}", f"vars(self).update({dparam})"):
                restored_at = i if restored_at is None else restored_at
                continue
            if isinstance(x, ast.Assign) and len(x.targets) == 1 and isinstance(x.targets[0], ast.Attribute) and dotted(x.targets[0].value) == "self":
                a = x.targets[0].attr
                rebuilt[a] = (x.value, omi, i, x)
                continue
            if isinstance(x, ast.Expr) and isinstance(x.value, ast.Call) and isinstance(x.value.func, ast.Attribute) and dotted(x.value.func.value) and (dotted(x.value.func.value) == "self" or dotted(x.value.func.value).startswith("self.")):
                recv = dotted(x.value.func.value)
                if recv == "self":
                    ws = _write_set(repo, cq, x.value.func.attr)
                else:
                    types = _attr_types(repo, cq)
                    ck.need(recv.count(".") == 1 and recv[5:] in types, f"{owner}.__setstate__: cannot resolve `{recv}` (unrecognised idiom)")
                    ws = {recv[5:] + "." + w for w in _write_set(repo, types[recv[5:]], x.value.func.attr)}
                ws = {w for w in ws if w.split(".")[0] not in removed and not _is_lazy_cache(repo, cq, w.split(".")[0])}
                ck.ob("R1-pickling-symmetry", cq, f"setstate-call:{short(x.value.func, 40)}", not ws, f"`{short(x, 60)}` writes {sorted(ws) if ws else 'nothing that was pickled'}",
                      "" if not ws else f"__setstate__ recomputes {sorted(ws)} after restoring it: the reloaded object differs from the saved one (e.g. a running maximum replaced by the current maximum) and evolves differently",
                      loc(omi, x))
                continue
            raise AnalysisError(f"{owner}.__setstate__: `{short(x, 70)}` (unrecognised idiom)")
        ck.ob("R1-pickling-symmetry", cq, "restores-dict", restored_at is not None, "self.__dict__.update(d)" if restored_at is not None else "no restoration of the pickled attributes",
              "" if restored_at is not None else "__setstate__ must restore the pickled attributes", loc(repo.cls(ss[0])._module, ss[1]))
        for a in removed:
            if a not in rebuilt:
                derived = a in init_vals and _is_dynamic_class(init_vals[a][0])
                ck.ob("R1-pickling-symmetry", cq, f"rebuilt:{a}", False, f"`{a}` is removed by __getstate__ and not rebuilt",
                      f"`{a}` is {'needed by sample_batch' if derived else 'ordinary data'} and is missing after reload", loc(repo.cls(ss[0])._module, ss[1]))
        for a, (v, omi, i, x) in rebuilt.items():
            if a in removed or a in transformed:
                if a in transformed:
                    continue  # decided (or declared undecidable) with the transformation
                ck.need(a in init_vals, f"{cq}: `{a}` rebuilt in __setstate__ but never set in __init__")
                if not _is_dynamic_class(init_vals[a][0]) and not _is_dynamic_class(v):
                    # a derived value (cache) that is dropped from the pickled state and recomputed from the restored attributes: whether
                    # the recomputed value equals the one at save time is a question about the class's invariants, not decided here
                    if ast.unparse(_unwrap_iter(v)) == ast.unparse(_unwrap_iter(init_vals[a][0])):
                        ck.ob("R1-pickling-symmetry", cq, f"rebuilt:{a}", restored_at is not None and i > restored_at, f"self.{a} = {short(v, 60)} as in __init__", "" if restored_at is not None and i > restored_at else "the attribute is rebuilt from self.* before the pickled attributes are restored", loc(omi, x))
                        continue
                    raise AnalysisError(f"{cq}: `{a}` is dropped from the pickled state and recomputed as `{short(v, 50)}` (a derived value; __init__ sets `{short(init_vals[a][0], 30)}`): equality with the saved value is not decided")
                got = nf.poly(_unwrap_iter(v), Scope(None, omi, {}, cq), None).canon()
                want = nf.poly(_unwrap_iter(init_vals[a][0]), Scope(None, init_vals[a][1], {}, cq), None).canon()
                okv = got == want
                oko = restored_at is not None and i > restored_at
                if not okv:
                    # a difference is evidence only when both sides are read completely: built from self.* and literals
                    free = {n_.id for e_ in (_unwrap_iter(v), _unwrap_iter(init_vals[a][0])) for n_ in ast.walk(e_) if isinstance(n_, ast.Name)} - {"self", "namedtuple", "collections", "list", "tuple", "sorted", "reversed", "dict"}
                    if free:
                        raise AnalysisError(f"{cq}: `{a}` is rebuilt as `{short(v, 50)}` and created as `{short(init_vals[a][0], 50)}`: the names {sorted(free)[:3]} are not read (unrecognised form)")
                ck.ob("R1-pickling-symmetry", cq, f"rebuilt:{a}", okv and oko, f"self.{a} = {short(v, 60)} ({'after' if oko else 'before'} the dict is restored); __init__: {short(init_vals[a][0], 60)}",
                      "" if okv and oko else ("the rebuilt attribute differs from the one __init__ creates (field order / names of the batch type change after reload)" if not okv else "the attribute is rebuilt from self.* before the pickled attributes are restored"), loc(omi, x))
            else:
                cache = _is_lazy_cache(repo, cq, a)
                same_as_init = a in init_vals and ast.unparse(init_vals[a][0]) == ast.unparse(v)
                ok = cache and same_as_init
                ck.ob("R1-pickling-symmetry", cq, f"setstate-write:{a}", ok, f"self.{a} = {short(v, 50)}" + (" (lazily recomputed cache reset to its constructor value)" if ok else ""),
                      "" if ok else f"__setstate__ overwrites `{a}`, which was saved: the reloaded object differs from the saved one", loc(omi, x))
    for cq in classes:
        ck.guard(one_class, cq)
    ck.floor("state-pairs", n_pairs[0], 5)


# ---------------------------------------------------------------------------------------------------------------------------
def _state_kind(cfg, at, e, model_names, depth=0):
    """('full', model) | ('filtered', text) | ('unknown', text) for an expression that should denote the state of a module."""
    if depth > 6:
        return ("unknown", "depth")
    if isinstance(e, ast.Name):
        ds = cfg.defs_of(at, e.id)
        if not ds:
            return ("unknown", e.id)
        kinds = []
        for d in ds:
            if d.kind == "assign" and d.value is not None:
                kinds.append(_state_kind(cfg, d.node, d.value, model_names, depth + 1))
            elif d.kind == "unpack" and isinstance(d.value, ast.Call) and dotted(d.value.func) in ("nnx.split", "flax.nnx.split"):
                c = d.value
                n_targets = len(cfg.nodes[d.node].ast.targets[0].elts) if isinstance(cfg.nodes[d.node].ast, ast.Assign) and isinstance(cfg.nodes[d.node].ast.targets[0], ast.Tuple) else 0
                if len(c.args) == 1 and not c.keywords and d.path in ((1,), (-1,)) and n_targets == 2:
                    kinds.append(("full", dotted(c.args[0])))
                elif d.path == (0,):
                    kinds.append(("graphdef", dotted(c.args[0])))
                else:
                    kinds.append(("filtered", short(c, 60)))
            else:
                kinds.append(("unknown", e.id))
        if len(set(kinds)) == 1:
            return kinds[0]
        for k in kinds:
            if k[0] != "full":
                return k
        return kinds[0]
    if isinstance(e, ast.Call):
        f = dotted(e.func)
        if f in ("nnx.state", "flax.nnx.state"):
            if len(e.args) == 1 and not e.keywords:
                return ("full", dotted(e.args[0]))
            return ("filtered", short(e, 60))
        if f in ("nnx.graphdef", "flax.nnx.graphdef") and len(e.args) == 1:
            return ("graphdef", dotted(e.args[0]))
        if f in ("_put_on_device", "jax.device_put") and e.args:
            return _state_kind(cfg, at, e.args[0], model_names, depth + 1)
        if f in ("pickle.load",):
            return ("loaded", short(e, 40))
        if isinstance(e.func, ast.Attribute) and e.func.attr == "restore":
            return ("restored", e)
    if isinstance(e, ast.Subscript) and isinstance(e.value, ast.Call) and dotted(e.value.func) in ("nnx.split", "flax.nnx.split") and isinstance(e.slice, ast.Constant):
        c = e.value
        if len(c.args) == 1 and not c.keywords and e.slice.value in (1, -1):
            return ("full", dotted(c.args[0]))
        return ("filtered", short(c, 60))
    return ("unknown", short(e, 60))


def _calls(cfg, pred):
    return [(n, c) for n in cfg.nodes if n.ast is not None and n.kind in ("stmt", "with") for c in ast.walk(n.ast if n.kind == "stmt" else ast.Module(body=[ast.Expr(value=i.context_expr) for i in n.ast.items], type_ignores=[])) if isinstance(c, ast.Call) and pred(c)]


def r2_pickle_helper(ck, repo, nf):
    q = "rl_blox.util.serialize.save_pickle"
    fn = repo.func(q)
    mi = fn._module
    cfg = nf.cfg_of(fn)
    dumps = _calls(cfg, lambda c: dotted(c.func) == "pickle.dump")
    ck.need(len(dumps) >= 1, f"{q}: no pickle.dump call (anchor vanished)")
    netp = positional_params(fn)[1] if len(positional_params(fn)) > 1 else "net"
    for n, c in dumps:
        kind = _state_kind(cfg, n.id, c.args[0], {netp}) if c.args else ("unknown", "")
        ok = kind == ("full", netp)
        if kind[0] == "unknown":
            raise AnalysisError(f"{q}: provenance of the dumped object `{kind[1]}` not recognised")
        ck.ob("R2-pickle-helper", q, "dumps-state", ok, f"pickle.dump({short(c.args[0])}, ..) <- {kind[0]} state of `{kind[1] if isinstance(kind[1], str) else ''}`",
              "" if ok else ("only part of the module state is saved (filtered split): the remaining variables are lost on reload" if kind[0] == "filtered" else f"the dumped object is the {kind[0]} of the module, not its state"), loc(mi, c))
        p = cfg.paths_avoiding(cfg.entry, cfg.exit, {n.id})
        ck.ob("R2-pickle-helper", q, "dump-on-every-path", p is None, "every path through save_pickle dumps", "" if p is None else "a path returns without writing the file", loc(mi, c), cfg.describe_path(p) if p else None)
    q = "rl_blox.util.serialize.load_pickle"
    fn = repo.func(q)
    cfg = nf.cfg_of(fn)
    gparam = positional_params(fn)[1] if len(positional_params(fn)) > 1 else "graphdef"
    rets = [n for n in cfg.nodes if n.kind == "stmt" and isinstance(n.ast, ast.Return)]
    ck.need(rets, f"{q}: no return")
    for r in rets:
        v = r.ast.value
        cands = []
        if isinstance(v, ast.Name):
            cands = [(d.node, d.value) for d in cfg.defs_of(r.id, v.id) if d.kind == "assign"]
            ck.need(len(cands) == len(cfg.defs_of(r.id, v.id)), f"{q}: returned value has a definition this check cannot follow")
        else:
            cands = [(r.id, v)]
        for at, e in cands:
            okm = isinstance(e, ast.Call) and dotted(e.func) in ("nnx.merge", "flax.nnx.merge") and len(e.args) == 2 and dotted(e.args[0]) == gparam
            kind = _state_kind(cfg, at, e.args[1], set()) if okm else ("unknown", "")
            ok = okm and kind[0] == "loaded"
            ck.ob("R2-pickle-helper", q, f"merge:{'device' if cfg.control_deps(at) and any(lab is True for _, lab in cfg.control_deps(at)) else 'default'}-branch", ok,
                  f"return <- {short(e, 60)}; state <- {kind[0]}", "" if ok else "the returned module must be nnx.merge(<given graphdef>, <state loaded from the file>) on every branch", loc(mi, e))


def r3_checkpoints(ck, repo, nf):
    writers = [("rl_blox.logging.logger.StandardLogger", "_save_checkpoint"), ("rl_blox.logging.checkpointer.OrbaxCheckpointer", "save_model")]
    for cq, meth in writers:
        m = repo.method(cq, meth, inherited=False)
        ck.need(m is not None, f"{cq}.{meth} not found (anchor vanished)")
        fn = m[1]
        fn._module = repo.cls(cq)._module
        mi = fn._module
        cfg = nf.cfg_of(fn)
        site = f"{cq}.{meth}"
        saves = _calls(cfg, lambda c: isinstance(c.func, ast.Attribute) and c.func.attr == "save" and dotted(c.func.value) == "self.checkpointer")
        ck.need(len(saves) == 1, f"{site}: expected one self.checkpointer.save call")
        n, c = saves[0]
        pps = [p_ for p_ in param_names(fn) if p_ != "self"]
        kind = _state_kind(cfg, n.id, c.args[1], set(pps)) if len(c.args) > 1 else ("unknown", "")
        if kind[0] == "unknown":
            raise AnalysisError(f"{site}: provenance of the saved object `{kind[1]}` not recognised")
        ok = kind[0] == "full" and kind[1] in pps
        modelp = kind[1] if ok else (pps[-1] if pps else "model")
        ck.ob("R3-checkpoints", site, "saves-full-state", ok, f"save(.., {short(c.args[1])}) <- {kind[0]} state of `{kind[1] if isinstance(kind[1], str) else ''}`",
              "" if ok else "the checkpoint must contain the complete module state: a variable filter (e.g. nnx.Param) drops non-parameter variables such as the tanh heads' action_scale / action_bias, which then come from the template on restore", loc(mi, c))
        waits = _calls(cfg, lambda c: isinstance(c.func, ast.Attribute) and c.func.attr == "wait_until_finished" and dotted(c.func.value) == "self.checkpointer")
        ok = len(waits) >= 1 and all(cfg.dominates(n.id, w.id) for w, _ in waits) and cfg.paths_avoiding(n.id, cfg.exit, {w.id for w, _ in waits}) is None
        ck.ob("R3-checkpoints", site, "waits-for-write", ok, "save ; wait_until_finished on every path", "" if ok else "the asynchronous write must be awaited before the method returns / the path is published", loc(mi, c))
    q = "rl_blox.blox.probabilistic_ensemble.restore_checkpoint"
    fn = repo.func(q)
    mi = fn._module
    cfg = nf.cfg_of(fn)
    pathp, modelp = positional_params(fn)[:2]
    rets = [n for n in cfg.nodes if n.kind == "stmt" and isinstance(n.ast, ast.Return)]
    ck.need(len(rets) == 1, f"{q}: expected one return")
    e = rets[0].ast.value
    if isinstance(e, ast.Name):
        ds = cfg.defs_of(rets[0].id, e.id)
        ck.need(len(ds) == 1 and ds[0].kind == "assign", f"{q}: returned value not a single definition")
        e, at = ds[0].value, ds[0].node
    else:
        at = rets[0].id
    ck.need(isinstance(e, ast.Call) and dotted(e.func) in ("nnx.merge", "flax.nnx.merge") and e.args, f"{q}: result is not an nnx.merge(...) (unrecognised idiom)")
    g = _state_kind(cfg, at, e.args[0], {modelp})
    okg = g == ("graphdef", modelp)
    ck.ob("R3-checkpoints", q, "merges-own-graphdef", okg, f"merge({short(e.args[0])}, ...) <- {g[0]} of `{g[1] if isinstance(g[1], str) else ''}`", "" if okg else "the restored state must be merged with the graphdef of the given model", loc(mi, e))
    states = e.args[1:]
    kinds = [_state_kind(cfg, at, s, {modelp}) for s in states]
    n_rest = [k for k in kinds if k[0] == "restored"]
    other = [(s, k) for s, k in zip(states, kinds) if k[0] != "restored"]
    ok = len(n_rest) == 1 and not other
    ck.ob("R3-checkpoints", q, "state-from-checkpoint-only", ok, f"merge(graphdef, {', '.join(short(s) for s in states)}) <- {[k[0] for k in kinds]}",
          "" if ok else f"part of the returned module's state ({[short(s) for s, _ in other]}) does not come from the checkpoint but from the template model: the reload differs whenever the template differs (e.g. other action bounds)", loc(mi, e))
    for k in n_rest:
        rc = k[1]
        okp = rc.args and dotted(rc.args[0]) == pathp
        tgt = rc.args[1] if len(rc.args) > 1 else next((kw.value for kw in rc.keywords if kw.arg in ("target", "item", "args")), None)
        tk = _state_kind(cfg, cfg.node_of(rc).id, tgt, {modelp}) if tgt is not None else None
        okt = tk == ("full", modelp)
        ck.ob("R3-checkpoints", q, "restore-from-path", bool(okp), f"{short(rc, 60)}", "" if okp else "must restore from the given path", loc(mi, rc))
        why = ""
        if tgt is None:
            why = ("untargeted restore returns nested dicts with *string* keys; nnx.merge consumes the leaves in sorted key order, so list entries beyond ten ('10' < '2') are assigned to the wrong, "
                   "equally shaped layers: the reloaded network computes a different function")
        elif not okt:
            why = f"the restore target is not the complete state of the model ({tk[0] if tk else '?'}): only part of the saved state is read back"
        ck.ob("R3-checkpoints", q, "restore-into-model-structure", okt, f"target = {short(tgt, 50) if tgt is not None else None}", why, loc(mi, rc))


def run(ck, repo: Repo, tier: str):
    nf = NF(repo, inline_depth=1, inline_calls=False)
    ck.guard(r1_buffers, ck, repo, nf)
    ck.guard(r2_pickle_helper, ck, repo, nf)
    ck.guard(r3_checkpoints, ck, repo, nf)


_F, _S = "rl_blox/blox/replay_buffer.py", "rl_blox/util/serialize.py"
_PE = "rl_blox/blox/probabilistic_ensemble.py"
MUTANTS = [
    {"id": "c19-batch-not-deleted", "file": _F, "rule": "R1", "nth": 0, "find": "        d = dict(self.__dict__)\n        del d[\"Batch\"]\n        return d", "replace": "        d = dict(self.__dict__)\n        return d"},
    {"id": "c19-mask-deleted", "file": _F, "rule": "R1", "nth": 1, "find": "        d = dict(self.__dict__)\n        del d[\"Batch\"]\n        return d", "replace": "        d = dict(self.__dict__)\n        del d[\"Batch\"]\n        del d[\"mask_\"]\n        return d"},
    {"id": "c19-getstate-live-dict", "file": _F, "rule": "R1", "nth": 0, "find": "        d = dict(self.__dict__)\n        del d[\"Batch\"]", "replace": "        d = self.__dict__\n        del d[\"Batch\"]"},
    {"id": "c19-setstate-no-rebuild", "file": _F, "rule": "R1", "nth": 0, "find": "        self.__dict__.update(d)\n        self.Batch = namedtuple(\"Batch\", self.buffer)", "replace": "        self.__dict__.update(d)"},
    {"id": "c19-setstate-rebuild-first", "file": _F, "rule": "R1", "nth": 1, "find": "        self.__dict__.update(d)\n        self.Batch = namedtuple(\"Batch\", self.buffer)", "replace": "        self.Batch = namedtuple(\"Batch\", self.buffer)\n        self.__dict__.update(d)"},
    {"id": "c19-setstate-other-fields", "file": _F, "rule": "R1", "nth": 0, "find": "        self.__dict__.update(d)\n        self.Batch = namedtuple(\"Batch\", self.buffer)", "replace": "        self.__dict__.update(d)\n        self.Batch = namedtuple(\"Batch\", sorted(self.buffer))"},
    {"id": "c19-setstate-resets-cursor", "file": _F, "rule": "R1", "nth": 0, "find": "        self.__dict__.update(d)\n        self.Batch = namedtuple(\"Batch\", self.buffer)", "replace": "        self.__dict__.update(d)\n        self.Batch = namedtuple(\"Batch\", self.buffer)\n        self.insert_idx = self.current_len % self.buffer_size"},
    {"id": "c19-setstate-recomputes-max", "file": _F, "rule": "R1", "find": "    def reset_max_priority(self):\n        self.priority.reset_max_priority(self.current_len)\n\nclass PrioritizedReplayBuffer(LAP):", "replace": "    def reset_max_priority(self):\n        self.priority.reset_max_priority(self.current_len)\n\n    def __setstate__(self, d):\n        super().__setstate__(d)\n        self.reset_max_priority()\n\nclass PrioritizedReplayBuffer(LAP):"},
    {"id": "c19-getstate-truncates-at-cursor", "file": _F, "rule": "R1", "nth": 0, "find": "        d = dict(self.__dict__)\n        del d[\"Batch\"]\n        return d\n\n    def __setstate__(self, d):\n        self.__dict__.update(d)\n",
     "replace": "        d = dict(self.__dict__)\n        del d[\"Batch\"]\n        d[\"buffer\"] = OrderedDict((k, v[: self.insert_idx]) for k, v in self.buffer.items())\n        return d\n\n    def __setstate__(self, d):\n        self.__dict__.update(d)\n        self.buffer = OrderedDict((k, np.concatenate((v, np.empty((self.buffer_size - len(v),) + v.shape[1:], dtype=v.dtype)))) for k, v in self.buffer.items())\n"},
    {"id": "c19-save-graphdef", "file": _S, "rule": "R2", "find": "        pickle.dump(state, f)", "replace": "        pickle.dump(graphdef, f)"},
    {"id": "c19-save-params-only", "file": _S, "rule": "R2", "find": "    graphdef, state = nnx.split(net)", "replace": "    graphdef, state, _ = nnx.split(net, nnx.Param, ...)"},
    {"id": "c19-load-no-merge", "file": _S, "rule": "R2", "find": "            state = pickle.load(f)\n            net = nnx.merge(graphdef, state)\n\n    return net", "replace": "            state = pickle.load(f)\n            net = state\n\n    return net"},
    {"id": "c19-orbax-param-only", "file": "rl_blox/logging/checkpointer.py", "rule": "R3", "find": "        state = nnx.state(model)", "replace": "        state = nnx.state(model, nnx.Param)"},
    {"id": "c19-logger-param-only", "file": "rl_blox/logging/logger.py", "rule": "R3", "find": "        _, state = nnx.split(value)\n", "replace": "        _, state, _ = nnx.split(value, nnx.Param, ...)\n"},
    {"id": "c19-orbax-no-wait", "file": "rl_blox/logging/checkpointer.py", "rule": "R3", "find": "        self.checkpointer.save(path, state)\n        self.checkpointer.wait_until_finished()", "replace": "        self.checkpointer.save(path, state)"},
    {"id": "c19-restore-own-state", "file": _PE, "rule": "R3", "find": "    state = checkpointer.restore(path, target_state)\n    return nnx.merge(graphdef, state)", "replace": "    state = checkpointer.restore(path, target_state)\n    return nnx.merge(graphdef, target_state)"},
    {"id": "c19-restore-untargeted", "file": _PE, "rule": "R3", "find": "    state = checkpointer.restore(path, target_state)", "replace": "    state = checkpointer.restore(path)"},
    {"id": "c19-restore-params-rest-from-template", "file": _PE, "rule": "R3", "find": "    graphdef, target_state = nnx.split(model)\n    state = checkpointer.restore(path, target_state)\n    return nnx.merge(graphdef, state)",
     "replace": "    graphdef, params, rest = nnx.split(model, nnx.Param, ...)\n    params = checkpointer.restore(path, params)\n    return nnx.merge(graphdef, params, rest)"},
]
BENIGN = [
    {"id": "c19-b-getstate-pop", "file": _F, "nth": 0, "find": "        d = dict(self.__dict__)\n        del d[\"Batch\"]\n        return d", "replace": "        d = dict(self.__dict__)\n        d.pop(\"Batch\")\n        return d"},
    {"id": "c19-b-getstate-copy-method", "file": _F, "nth": 1, "find": "        d = dict(self.__dict__)\n        del d[\"Batch\"]\n        return d", "replace": "        state = self.__dict__.copy()\n        del state[\"Batch\"]\n        return state"},
    {"id": "c19-b-save-state-call", "file": _S, "find": "    graphdef, state = nnx.split(net)", "replace": "    state = nnx.state(net)"},
    {"id": "c19-b-orbax-split", "file": "rl_blox/logging/checkpointer.py", "find": "        state = nnx.state(model)", "replace": "        _, state = nnx.split(model)"},
    {"id": "c19-b-restore-state-call", "file": _PE, "find": "    graphdef, target_state = nnx.split(model)\n    state = checkpointer.restore(path, target_state)", "replace": "    graphdef = nnx.graphdef(model)\n    state = checkpointer.restore(path, nnx.state(model))"},
]
