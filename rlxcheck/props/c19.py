"""C19 - saved models and buffers reload to identical state (necessary structural conditions only)."""
from __future__ import annotations

import ast
from ..expand import clone

from ..cfg import CFG
from ..loops import dotted
from ..nf import NF, Scope, Poly
from ..repo import Repo, loc, short, AnalysisError, positional_params, param_names
from ..sem import arg_of, same_ingredients

EXPLANATION = (
    "Round-trip equality is a runtime property and is NOT decided. Decided are necessary conditions, by dataflow rather than by text: "
    "(R1) pickling symmetry of every buffer class. __getstate__ must build its result from a *copy* of the instance dict; every key it removes "
    "must be an attribute that __setstate__ rebuilds, after restoring the dict, with an expression whose normal form equals the one in "
    "__init__ (a derived attribute such as the namedtuple type); an attribute bound to a dynamically created class must be removed "
    "(it cannot be pickled); a value it *transforms* (d[k] = f(..)) is followed into f: truncating the storage at anything but the fill level "
    "loses valid rows (the bound is read through single-assignment locals and expanded helpers; a cursor that is also used elsewhere in the value is not read). "
    "An ordinary attribute that is removed and reset to its constructor value must be scratch data: a cross-call liveness analysis (upward-exposed reads per method "
    "on the statement CFG, summarised through self.m(), super().m() and the methods of classes that hold the object in a field) reports a violation when one call "
    "stores run-time data into it and a public method reads it before writing it on a path that passes no test over a reset attribute (a recompute guard is no witness); "
    "it is accepted when no method writes it after construction or every reader has written it first; element stores, `out=` arguments, unresolved callees and accesses "
    "through other receivers leave it undecided. __setstate__ may, besides rebuilding removed attributes, only reset lazily recomputed caches; any other write to "
    "restored state - directly or through a method whose transitive write set (effect summary through self.<attr> types) is non-empty - "
    "changes what was saved. An attribute that __setstate__ computes from restored plain attributes must be a function of them: when one call of a public method "
    "provably moves it (ring cursor step, capacity >= 2) while every input keeps its value (not written, or a saturating counter `min(x + 1, E)` at its bound E, "
    "nothing before the two statements leaves the method), two states the buffer passes through agree on the inputs and differ in the attribute, so one of them "
    "reloads differently; anything else about a recomputed value stays undecided. (R2) the pickle helper dumps the unfiltered state half of nnx.split(net) (provenance of the dumped object through "
    "reaching definitions and device moves) and load merges the loaded object with the given graphdef on every path to the return. "
    "(R3) both checkpoint writers save the unfiltered module state and wait for completion before publishing the path; restore reads into a "
    "target that is the model's own state structure (an untargeted restore returns string-keyed dicts whose leaf order is the sorted key "
    "order: '10' < '2') and merges the model's graphdef with nothing but the restored state. "
    "Evidence discipline: a violation is reported only for a value that was read completely and is something else (a filtered / foreign state, the graphdef, "
    "the raw loaded object, a path witness, the write cursor as slice bound, a write to an attribute that methods accumulate into or take from outside); "
    "aliases, keywords, module constants, helpers and base-class methods are followed, and what cannot be read (unknown provenance, other spellings, "
    "hand-written restores, unexpanded callees) leaves the rule group undecided."
)
TRUSTED = ["pickle round-trips plain attributes (ints, numpy arrays, OrderedDict, PriorityBuffer objects)", "nnx.split / nnx.merge are inverse for a given graphdef", "Orbax StandardCheckpointer.save / restore(path, target) are inverse for a given target structure"]
RULES = {
    "R1-pickling-symmetry": "__getstate__ works on a copy, removes exactly derived / unpicklable attributes and scratch data no later call reads, transforms nothing lossy; __setstate__ restores the dict first, rebuilds removed attributes as __init__ does and writes nothing else (lazy caches excepted)",
    "R2-pickle-helper": "save_pickle dumps the unfiltered state of nnx.split(net); load_pickle returns nnx.merge(graphdef, loaded state) on every path",
    "R3-checkpoints": "checkpoint writers save the unfiltered state and wait; restore_checkpoint restores into the model's own state structure and merges graphdef with the restored state only",
}

RB = "rl_blox.blox.replay_buffer."
MODQ = "rl_blox.blox.replay_buffer"
DYN_CTORS = ("namedtuple", "collections.namedtuple", "type", "dataclasses.make_dataclass", "make_dataclass")
COPY_FORMS = ("dict(self.__dict__)", "self.__dict__.copy()", "{**self.__dict__}", "copy.copy(self.__dict__)", "copy(self.__dict__)", "dict(vars(self))", "vars(self).copy()", "{**vars(self)}", "copy.copy(vars(self))",
              "copy(vars(self))", "dict(**self.__dict__)", "dict(**vars(self))", "dict(self.__dict__.items())", "dict(vars(self).items())")
NT_DEFAULTS = {"rename": False, "defaults": None, "module": None}     # keyword-only options of collections.namedtuple at their defaults
IDENTITY_WRAPPERS = ("np.asarray", "numpy.asarray", "copy.copy", "copy.deepcopy", "copy", "deepcopy")


def _need_self(fn, what):
    """The rules read `self.<attr>` by name: a method whose instance parameter is called differently is not read."""
    pp = positional_params(fn)
    if not pp or pp[0] != "self":
        raise AnalysisError(f"{what}: the instance parameter is not named `self` (unrecognised form)")


# ---------------------------------------------------------------------------------------------------------------------------
def _init_attr_values(repo, cq):
    """attribute -> (value AST, module) of the last `self.X = ...` in __init__ along the MRO (most derived wins)."""
    out = {}
    for c in repo.mro(cq)[::-1]:
        m = repo.method(c, "__init__", inherited=False)
        if not m:
            continue
        _need_self(m[1], f"{c}.__init__")
        # single-assignment locals (temporaries of expanded helpers) are read with their value
        stores = {}
        for n in ast.walk(m[1]):
            if isinstance(n, ast.Name) and isinstance(n.ctx, ast.Store):
                stores[n.id] = stores.get(n.id, 0) + 1
        temps = {}
        for n in ast.walk(m[1]):
            if isinstance(n, ast.Assign) and len(n.targets) == 1 and isinstance(n.targets[0], ast.Name) and stores.get(n.targets[0].id) == 1 and n.targets[0].id not in param_names(m[1]):
                temps[n.targets[0].id] = n.value

        class _Sub(ast.NodeTransformer):
            depth = 0

            def visit_Name(self_inner, n):
                if isinstance(n.ctx, ast.Load) and n.id in temps and self_inner.depth < 5:
                    self_inner.depth += 1
                    r = self_inner.visit(clone(temps[n.id]))
                    self_inner.depth -= 1
                    return r
                return n
        for n in ast.walk(m[1]):
            if isinstance(n, (ast.Assign, ast.AnnAssign)) and n.value is not None:
                for t in (n.targets if isinstance(n, ast.Assign) else [n.target]):
                    if isinstance(t, ast.Attribute) and dotted(t.value) == "self":
                        v = n.value
                        if temps and any(isinstance(x, ast.Name) and x.id in temps for x in ast.walk(v)):
                            v = ast.fix_missing_locations(ast.copy_location(_Sub().visit(clone(v)), n.value))
                        out[t.attr] = (v, repo.cls(c)._module)
    return out


def _unwrap_iter(v):
    """namedtuple("T", list(d)) == namedtuple("T", tuple(d)) == namedtuple("T", d) == namedtuple(typename="T", field_names=d.keys()): the field names
    are the iteration order of d; keywords are bound by the signature of collections.namedtuple, options at their defaults are dropped."""
    v = clone(v)
    if isinstance(v, ast.Call) and dotted(v.func) in ("namedtuple", "collections.namedtuple") and not any(isinstance(a, ast.Starred) for a in v.args) and all(k.arg for k in v.keywords):
        kws = {k.arg: k.value for k in v.keywords}
        for i_, nm in enumerate(("typename", "field_names")):
            if len(v.args) == i_ and nm in kws:
                v.args.append(kws.pop(nm))
        kws = {k: x for k, x in kws.items() if not (k in NT_DEFAULTS and isinstance(x, ast.Constant) and x.value is NT_DEFAULTS[k])}
        v.keywords = [ast.keyword(arg=k, value=kws[k]) for k in sorted(kws)]
    if isinstance(v, ast.Call) and dotted(v.func) in DYN_CTORS and len(v.args) >= 2:
        a = v.args[1]
        while isinstance(a, ast.Call) and dotted(a.func) in ("list", "tuple") and len(a.args) == 1 and not a.keywords:
            a = a.args[0]
        if isinstance(a, ast.Call) and isinstance(a.func, ast.Attribute) and a.func.attr == "keys" and not a.args and not a.keywords:
            a = a.func.value
        v.args[1] = a
    return ast.fix_missing_locations(v)


def _is_dynamic_class(v):
    if isinstance(v, ast.Lambda):
        return True
    if isinstance(v, ast.Call) and dotted(v.func) in DYN_CTORS:
        # type(x) with one argument looks a class up, only the three-argument form creates one
        return dotted(v.func) != "type" or len(v.args) + len(v.keywords) == 3
    return False


LOG_METHODS = ("debug", "info", "warning", "warn", "error", "exception", "critical", "log")
MUTATORS = ("pop", "popitem", "update", "clear", "setdefault", "append", "extend", "insert", "remove", "add", "discard", "sort", "reverse", "fill", "resize", "put", "itemset", "setflags", "__setitem__", "__delitem__", "move_to_end")


def _is_logging(mi, x):
    """Statement x only reports: a call of a method of a module-level `logging.getLogger(..)` object, of `logging.<level>` or `warnings.warn`, (possibly
    under `if <logger>.isEnabledFor(..)`) whose arguments call no mutating method.  What is formatted is read, not changed."""
    if isinstance(x, ast.If) and not x.orelse and isinstance(x.test, ast.Call) and isinstance(x.test.func, ast.Attribute) and x.test.func.attr == "isEnabledFor" and _is_logger(mi, x.test.func.value):
        return all(_is_logging(mi, y) for y in x.body)
    if not (isinstance(x, ast.Expr) and isinstance(x.value, ast.Call)):
        return False
    c = x.value
    f = dotted(c.func)
    if not ((isinstance(c.func, ast.Attribute) and c.func.attr in LOG_METHODS and _is_logger(mi, c.func.value)) or f == "warnings.warn"):
        return False
    for a in list(c.args) + [k.value for k in c.keywords]:
        for n in ast.walk(a):
            if isinstance(n, ast.Call) and isinstance(n.func, ast.Attribute) and n.func.attr in MUTATORS:
                return False
            if isinstance(n, (ast.NamedExpr, ast.Await, ast.Yield, ast.YieldFrom)):
                return False
    return True


def _is_logger(mi, e):
    if dotted(e) == "logging" and mi.imports.get("logging") == "logging":
        return True
    if isinstance(e, ast.Name):
        d = mi.defs.get(e.id)
        v = getattr(d, "value", None) if isinstance(d, (ast.Assign, ast.AnnAssign)) else None
        return isinstance(v, ast.Call) and dotted(v.func) in ("logging.getLogger", "getLogger") and mi.imports.get(dotted(v.func).split(".")[0], "").split(".")[0] == "logging"
    return False


def _bare_name(e, name):
    """`name` occurs in e other than as the object of an attribute access (the whole object is handed on)."""
    inner = {id(n.value) for n in ast.walk(e) if isinstance(n, ast.Attribute)}
    return any(isinstance(n, ast.Name) and n.id == name and id(n) not in inner for n in ast.walk(e))


def _strip_identity(v):
    """np.asarray(x) / copy.copy(x) / x.copy(): the same value as x."""
    while True:
        if isinstance(v, ast.Call) and dotted(v.func) in IDENTITY_WRAPPERS and len(v.args) == 1 and not v.keywords:
            v = v.args[0]
        elif isinstance(v, ast.Call) and isinstance(v.func, ast.Attribute) and v.func.attr == "copy" and not v.args and not v.keywords:
            v = v.func.value
        else:
            return v


def _attr_types(repo, cq):
    out = {}
    for a, (v, mi) in _init_attr_values(repo, cq).items():
        if isinstance(v, ast.Call) and isinstance(v.func, ast.Name):
            r = repo.resolve_name(mi, v.func.id)
            if r and r.startswith("rl_blox.") and repo.has(r):
                out[a] = r
    return out


def _write_set(repo, cq, meth, seen=None, prefix=""):
    """Transitive set of attribute paths of `self` written by cq.meth (through self.m() and self.<typed attr>.m())."""
    seen = seen if seen is not None else set()
    if (cq, meth) in seen:
        return set()
    seen.add((cq, meth))
    m = repo.method(cq, meth)
    if m is None:
        raise AnalysisError(f"{cq}.{meth}: method not found while summarising the effects of __setstate__")
    fn = m[1]
    types = _attr_types(repo, cq)
    out = set()
    for n in ast.walk(fn):
        tg = []
        if isinstance(n, ast.Assign):
            tg = n.targets
        elif isinstance(n, (ast.AugAssign, ast.AnnAssign)):
            tg = [n.target]
        for t in tg:
            for tt in (t.elts if isinstance(t, (ast.Tuple, ast.List)) else [t]):
                base = tt
                while isinstance(base, ast.Subscript):
                    base = base.value
                d = dotted(base)
                if d and d.startswith("self."):
                    out.add(prefix + d[5:])
        if isinstance(n, ast.Call) and isinstance(n.func, ast.Attribute):
            recv = dotted(n.func.value)
            if recv == "self":
                out |= _write_set(repo, cq, n.func.attr, seen, prefix)
            elif recv and recv.startswith("self.") and recv.count(".") == 1 and recv[5:] in types:
                out |= _write_set(repo, types[recv[5:]], n.func.attr, seen, prefix + recv[5:] + ".")
            elif recv and recv.startswith("self.") and n.func.attr in ("append", "extend", "add", "update", "clear", "pop", "remove", "insert", "fill", "sort"):
                out.add(prefix + recv[5:])
    return out


def _is_lazy_cache(repo, cq, attr):
    """Every write of self.<attr> outside __init__/__setstate__ is `None` (invalidate) or sits under `if self.<attr> is None` (recompute):
    the attribute is a derived cache, resetting it to its constructor value does not change behaviour."""
    n_sites = 0
    for c in repo.mro(cq) + [s for s in repo.subclasses(cq)]:
        cls = repo.cls(c)
        for meth in cls.body:
            if not isinstance(meth, ast.FunctionDef) or meth.name in ("__init__", "__setstate__"):
                continue
            cfg = CFG(meth)
            for node in cfg.nodes:
                s = node.ast
                if node.kind != "stmt" or not isinstance(s, (ast.Assign, ast.AugAssign)):
                    continue
                tgs = s.targets if isinstance(s, ast.Assign) else [s.target]
                for t in tgs:
                    base = t
                    while isinstance(base, ast.Subscript):
                        base = base.value
                    if dotted(base) != f"self.{attr}":
                        continue
                    n_sites += 1
                    if isinstance(s, ast.Assign) and isinstance(s.value, ast.Constant) and s.value.value is None and t is base:
                        continue
                    guarded = any(cfg.nodes[b].kind == "test" and _none_test(getattr(cfg.nodes[b].ast, "test", None), attr) is not None and lab is _none_test(cfg.nodes[b].ast.test, attr) for b, lab in cfg.control_deps(node.id))
                    if not guarded:
                        return False
    return n_sites > 0


def _none_test(t, attr):
    """True / False: the branch label of test `t` on which `self.<attr> is None` holds (`self.a is None` -> True, `self.a is not None` -> False); None: another test."""
    if isinstance(t, ast.UnaryOp) and isinstance(t.op, ast.Not):
        r = _none_test(t.operand, attr)
        return None if r is None else (not r)
    if isinstance(t, ast.Compare) and len(t.ops) == 1 and isinstance(t.ops[0], (ast.Is, ast.IsNot, ast.Eq, ast.NotEq)):
        a, b = t.left, t.comparators[0]
        if isinstance(a, ast.Constant) and a.value is None:
            a, b = b, a
        if dotted(a) == f"self.{attr}" and isinstance(b, ast.Constant) and b.value is None:
            return isinstance(t.ops[0], (ast.Is, ast.Eq))
    return None


def _state_evidence(repo, cq, attr):
    """Positive evidence that `self.<attr>` is state only the history of the object determines (not a value derivable from the other attributes):
    some method accumulates into it (augmented assignment, a new value that reads the old one), stores into its elements, or sets it from one of
    its own parameters (a value given from outside)."""
    for c in repo.mro(cq) + [s_ for s_ in repo.subclasses(cq)]:
        for meth in repo.cls(c).body:
            if not isinstance(meth, ast.FunctionDef) or meth.name == "__setstate__":
                continue
            params = set(param_names(meth)) - {"self"}
            for s in ast.walk(meth):
                if isinstance(s, ast.Assign):
                    tgs, val, aug = s.targets, s.value, False
                elif isinstance(s, ast.AugAssign):
                    tgs, val, aug = [s.target], s.value, True
                elif isinstance(s, ast.AnnAssign) and s.value is not None:
                    tgs, val, aug = [s.target], s.value, False
                else:
                    continue
                for t in tgs:
                    for tt in (t.elts if isinstance(t, (ast.Tuple, ast.List)) else [t]):
                        base, sub = tt, False
                        while isinstance(base, ast.Subscript):
                            base, sub = base.value, True
                        if dotted(base) != f"self.{attr}":
                            continue
                        if aug or sub:
                            return True
                        if {n.id for n in ast.walk(val) if isinstance(n, ast.Name)} & params:
                            return True
                        if any(isinstance(n, ast.Attribute) and dotted(n) == f"self.{attr}" for n in ast.walk(val)):
                            return True
    return False


NON_ENTRY = ("__init__", "__new__", "__setstate__", "__getstate__", "__reduce__", "__reduce_ex__", "__del__", "__init_subclass__", "__class_getitem__")


def _own_parts(node):
    """The expressions a CFG node itself evaluates (not the bodies of the compound statement it heads)."""
    a = node.ast
    if a is None or node.kind in ("entry", "exit"):
        return []
    if node.kind == "stmt":
        if isinstance(a, ast.ExceptHandler):
            return [a.type] if a.type is not None else []
        return [a]
    if node.kind == "test":
        if hasattr(a, "test"):
            return [a.test]
        if hasattr(a, "subject"):
            return [a]            # match statement: patterns may bind / read attributes; read as a whole
        return [a]
    if node.kind == "for":
        return [a.iter, a.target]
    if node.kind == "with":
        return [i.context_expr for i in a.items] + [i.optional_vars for i in a.items if i.optional_vars is not None]
    return [a]


class _AttrLife:
    """Is attribute `A` of class C *carried state* - does its value at the end of one call matter to a later call?

    Dataflow over the statement CFG of every method, interprocedural through `self.m()`, `super().m()` and `self.<field>.m()` of the classes
    that hold a C in a field: a method has an *upward-exposed read* of A when a path from its entry reaches a read of A without passing a write
    of A.  Two readings of every node: the definite one (explicit reads / plain stores, callees summarised the same way) gives evidence; the
    possible one (calls that are not resolved, the object handed on, nested functions) only ever makes the result undecided."""

    def __init__(self, repo, cq, attr, dropped=()):
        self.repo, self.cq, self.attr = repo, cq, attr
        self.dropped = set(dropped) | {attr}      # attributes that come back with their constructor value
        self.family = list(dict.fromkeys(repo.mro(cq) + repo.subclasses(cq)))
        self.holders = []
        self.unread_classes = []
        for mi in repo.modules.values():
            for name, node in mi.defs.items():
                if not isinstance(node, ast.ClassDef):
                    continue
                q = repo.canonical(f"{mi.name}.{name}", node)
                try:
                    types = _attr_types(repo, q)
                except AnalysisError:
                    self.unread_classes.append(q)
                    continue
                for f, t in sorted(types.items()):
                    if t in self.family and (q, f) not in self.holders:
                        self.holders.append((q, f))
        self.memo = {}
        self.writers = []         # (method, statement) that store run-time data into A
        self.known_nodes = set()  # ids of the attribute / call nodes read by a summary

    # -- one method ------------------------------------------------------------------------------------------------------
    def _resolve(self, K, mname, after=None):
        if after is None:
            return self.repo.method(K, mname)
        mro = self.repo.mro(K)
        if after not in mro:
            return None
        for c in mro[mro.index(after) + 1:]:
            m = self.repo.method(c, mname, inherited=False)
            if m:
                return m
        return None

    def _stored_class(self, K, name):
        """`self.<name>` is an instance attribute that every constructor binds to a freshly created class (namedtuple, ..), not a method."""
        if ("init", K) not in self.memo:
            try:
                self.memo[("init", K)] = _init_attr_values(self.repo, K)
            except AnalysisError:
                self.memo[("init", K)] = None
        iv = self.memo[("init", K)]
        if iv is None:
            return False
        return name in iv and isinstance(iv[name][0], ast.Call) and _is_dynamic_class(iv[name][0])

    def _field_type(self, K, P):
        if ("types", K) not in self.memo:
            try:
                self.memo[("types", K)] = _attr_types(self.repo, K)
            except AnalysisError:
                self.memo[("types", K)] = {}
        return self.memo[("types", K)].get(P[5:])

    def summary(self, K, P, mname, after=None):
        """(ue_must, ue_may, dw_must, w_may) of `mname` called on an object of class K, the attribute being `P.A` there; None: not resolved."""
        m = self._resolve(K, mname, after)
        if m is None:
            return None
        owner, fn = m
        key = (K, P, owner, mname)
        if key in self.memo:
            return self.memo[key]
        self.memo[key] = (False, True, False, True)      # while being computed (recursion): nothing is known
        pp = positional_params(fn)
        if not pp or pp[0] != "self" or any(isinstance(d_, ast.Name) and d_.id in ("staticmethod", "classmethod") for d_ in fn.decorator_list):
            self.memo[key] = (False, False, False, False) if not pp or pp[0] != "self" else (False, True, False, True)
            return self.memo[key]
        A, full = self.attr, f"{P}.{self.attr}"
        cfg = CFG(fn)
        locals_ = {n.id for n in ast.walk(fn) if isinstance(n, ast.Name) and isinstance(n.ctx, ast.Store)} | (set(param_names(fn)) - {"self"})
        rd, mrd, kl, mkl = {}, {}, {}, {}
        wr_local = []
        for node in cfg.nodes:
            parts = _own_parts(node)
            if not parts:
                continue
            r = mr = k = mk = False
            if node.kind == "def":
                if any((isinstance(n, ast.Name) and n.id == "self") for n in ast.walk(node.ast)):
                    mr = mk = True
                rd[node.id], mrd[node.id], kl[node.id], mkl[node.id] = r, mr, k, mk
                continue
            aug_t = node.ast.target if node.kind == "stmt" and isinstance(node.ast, ast.AugAssign) else None
            plain_store = False
            # occurrences that overwrite (part of) the stored object rather than use its contents: the base of an element store `A[i] = v`,
            # an `out=A[..]` argument, the receiver of `A.fill(..)` / `A.clear()`; and the operands of a recompute guard inside a
            # read-modify-write (`A = A if A is not None else f()`, `A = A or f()`): possible reads, not evidence of one
            partial = set()
            if node.kind == "stmt" and isinstance(node.ast, ast.Assign):
                for t in node.ast.targets:
                    for tt in (t.elts if isinstance(t, (ast.Tuple, ast.List)) else [t]):
                        base = tt
                        while isinstance(base, ast.Subscript):
                            base = base.value
                        if base is not tt:
                            partial.add(id(base))
                if any(isinstance(t, ast.Attribute) and dotted(t) == full for t in node.ast.targets):
                    for g_ in ast.walk(node.ast.value):
                        if isinstance(g_, (ast.IfExp, ast.BoolOp)):
                            partial |= {id(x) for x in ast.walk(g_) if isinstance(x, ast.Attribute)}
            for part in parts:
                for c_ in ast.walk(part):
                    if isinstance(c_, ast.Call):
                        for kw in c_.keywords:
                            if kw.arg == "out":
                                partial |= {id(x) for x in ast.walk(kw.value) if isinstance(x, ast.Attribute)}
                        if isinstance(c_.func, ast.Attribute) and c_.func.attr in ("fill", "clear"):
                            partial.add(id(c_.func.value))
            for part in parts:
                inner = {id(n.value) for n in ast.walk(part) if isinstance(n, ast.Attribute)}
                for n in ast.walk(part):
                    if isinstance(n, ast.Attribute) and dotted(n) == full and id(n) in partial:
                        self.known_nodes.add(id(n))
                        mr = mk = True
                    elif isinstance(n, ast.Attribute) and dotted(n) == full:
                        self.known_nodes.add(id(n))
                        if isinstance(n.ctx, ast.Load) or n is aug_t:
                            r = True
                            if n is aug_t:
                                mk = True
                        elif isinstance(n.ctx, ast.Store):
                            plain_store = True
                        else:
                            mr = mk = True
                    elif isinstance(n, ast.Attribute) and dotted(n) in (f"{P}.__dict__", "self.__dict__"):
                        mr = mk = True
                    elif P != "self" and isinstance(n, ast.Attribute) and dotted(n) == P and not isinstance(n.ctx, ast.Load):
                        mr = mk = True        # the field that holds the object is rebound
                    elif P != "self" and isinstance(n, ast.Attribute) and dotted(n) == P and id(n) not in inner:
                        mr = mk = True        # the held object is handed on / returned as a whole
                    if not isinstance(n, ast.Call):
                        continue
                    args = list(n.args) + [kw.value for kw in n.keywords]
                    if any(_bare_name(a_.value if isinstance(a_, ast.Starred) else a_, "self") for a_ in args):
                        mr = mk = True        # the object is handed to a callee
                    if not isinstance(n.func, ast.Attribute):
                        continue
                    recv = n.func.value
                    rdot = dotted(recv)
                    sm = "none"
                    if rdot == "self":
                        sm = self.summary(K, P, n.func.attr)
                    elif P != "self" and rdot == P:
                        T = self._field_type(K, P)
                        sm = self.summary(T, "self", n.func.attr) if T else None
                    elif isinstance(recv, ast.Call) and dotted(recv.func) == "super" and not recv.args and not recv.keywords:
                        sm = self.summary(K, P, n.func.attr, after=owner)
                    elif rdot is not None and (rdot == full or rdot.startswith(full + ".")) and n.func.attr in MUTATORS:
                        mk = True
                        wr_local.append((node.id, f"{owner}.{mname}", short(n, 60)))
                    if sm == "none":
                        continue
                    self.known_nodes.add(id(n.func))
                    if sm is None:
                        if rdot == "self" and self._stored_class(K, n.func.attr):
                            continue          # `self.Batch(..)`: a class kept in an attribute is instantiated; it does not see the object
                        mr = mk = True        # a method this check cannot find
                        continue
                    r = r or sm[0]
                    mr = mr or sm[1]
                    mk = mk or sm[3]
                    if sm[2] and not sm[1] and not r:
                        k = True
            a = node.ast
            if plain_store:
                mk = True
                simple = node.kind == "stmt" and isinstance(a, (ast.Assign, ast.AnnAssign)) and getattr(a, "value", None) is not None
                if simple and not r and not mr:
                    k = True
                if simple:
                    v = a.value
                    if any((isinstance(x, ast.Name) and x.id in locals_) or (isinstance(x, ast.Attribute) and dotted(x) and dotted(x).startswith("self.")) for x in ast.walk(v)):
                        wr_local.append((node.id, f"{owner}.{mname}", short(a, 60)))
                else:
                    mr = True                 # `for self.a in ..` / `with .. as self.a`: not read
            elif node.kind == "stmt" and isinstance(a, (ast.Assign, ast.AugAssign)) and (r or mr):
                # element stores / augmented assignment: the attribute is updated in place with run-time data
                tgs = a.targets if isinstance(a, ast.Assign) else [a.target]
                for t in tgs:
                    base = t
                    while isinstance(base, ast.Subscript):
                        base = base.value
                    if dotted(base) == full and (base is not t or isinstance(a, ast.AugAssign)):
                        mk = True
                        wr_local.append((node.id, f"{owner}.{mname}", short(a, 60)))
            rd[node.id], mrd[node.id], kl[node.id], mkl[node.id] = r, mr, k, mk
        kills_def = {i for i, v in kl.items() if v}
        kills_may = {i for i, v in mkl.items() if v} | kills_def
        # a store of run-time data counts when it can still be there at the end of the call (not when every path overwrites it again, e.g. resets it)
        for nid_, where_, txt_ in wr_local:
            if cfg.paths_avoiding(nid_, cfg.exit, kills_def - {nid_}, feasible=False) is not None:
                self.writers.append((where_, txt_))
        # a branch on an attribute that comes back with its constructor value (a validity flag, the attribute itself) may route the reloaded
        # object to a recomputation: a path through such a test is no witness; a read *in* such a test is one unless an arm of the test
        # rewrites the attribute on every path (a recompute guard)
        dtests = set()
        for node in cfg.nodes:
            if node.kind == "test":
                for part in _own_parts(node):
                    if any(isinstance(x, ast.Attribute) and dotted(x) in {f"{P}.{d_}" for d_ in self.dropped} for x in ast.walk(part)):
                        dtests.add(node.id)
        ue_must = None
        for i in sorted(rd):
            if rd[i]:
                if i in dtests and any(cfg.paths_avoiding(i, cfg.exit, kills_def, feasible=False, first_label=lab) is None for lab in {l_ for _, l_ in cfg.nodes[i].succ}):
                    continue
                p_ = cfg.paths_avoiding(cfg.entry, i, (kills_may | dtests) - {i})
                if p_ is not None:
                    ue_must = (i, p_)
                    break
        ue_may = any((rd[i] or mrd[i]) and cfg.paths_avoiding(cfg.entry, i, kills_def - {i}, feasible=False) is not None for i in rd)
        dw_must = cfg.paths_avoiding(cfg.entry, cfg.exit, kills_def, feasible=False) is None
        w_may = bool(kills_may)
        self.memo[key] = (bool(ue_must), ue_may or bool(ue_must), dw_must, w_may)
        if ue_must:
            self.memo[key + ("witness",)] = (loc(self.repo.cls(owner)._module, cfg.nodes[ue_must[0]].ast), short(cfg.nodes[ue_must[0]].ast if cfg.nodes[ue_must[0]].kind == "stmt" else _own_parts(cfg.nodes[ue_must[0]])[0], 60))
        return self.memo[key]

    # -- the whole class -------------------------------------------------------------------------------------------------
    def _entries(self):
        """(class, prefix, method name) of every method that code outside the object can call."""
        out = []
        ctxs = [(K, "self") for K in self.family]
        for H, f in self.holders:
            for H2 in [H] + self.repo.subclasses(H):
                ctxs.append((H2, f"self.{f}"))
        for K, P in list(dict.fromkeys(ctxs)):
            names = []
            for c in self.repo.mro(K):
                for ch in self.repo.cls(c).body:
                    if isinstance(ch, ast.FunctionDef) and ch.name not in names:
                        names.append(ch.name)
            for nm in names:
                out.append((K, P, nm))
        return out

    def decide(self):
        """('carried', witness text) | ('scratch', text) | ('unknown', text)."""
        try:
            return self._decide()
        except AnalysisError:
            raise
        except (KeyError, IndexError, AttributeError, TypeError, ValueError, RecursionError) as e:
            raise AnalysisError(f"{self.cq}: liveness of `{self.attr}` could not be computed ({type(e).__name__}: {e}) (unrecognised form)")

    def _decide(self):
        must, may = [], []
        for K, P, nm in self._entries():
            if nm in NON_ENTRY:
                continue
            sm = self.summary(K, P, nm)
            if sm is None:
                continue
            public = not nm.startswith("_") or (nm.startswith("__") and nm.endswith("__"))
            owner = self._resolve(K, nm)[0]
            if sm[0] and public:
                w = self.memo.get((K, P, owner, nm, "witness"))
                must.append((f"{K.rsplit('.', 1)[1]}.{nm}", w))
            if sm[1] and public:
                may.append(f"{K.rsplit('.', 1)[1]}.{nm}")
        # accesses of an attribute of this name (and calls of the private methods) that no summary has read: other receivers, other classes
        foreign = []
        private_may = {nm for (K, P, nm) in self._entries() if nm.startswith("_") and not nm.endswith("__") and (self.summary(K, P, nm) or (0, 0))[1]}
        for mi in self.repo.modules.values():
            for n in ast.walk(mi.tree):
                if isinstance(n, ast.Attribute) and id(n) not in self.known_nodes:
                    if n.attr == self.attr and not (dotted(n) == f"self.{self.attr}" and self._in_state_protocol(n)):
                        foreign.append(loc(mi, n))
                    elif n.attr in private_may and not (dotted(n.value) == "self"):
                        foreign.append(loc(mi, n))
        writers = sorted(set(self.writers))
        written = any((self.summary(K, P, nm) or (0, 0, 0, 1))[3] for K, P, nm in self._entries() if nm not in ("__init__", "__setstate__", "__getstate__"))
        if not written and not foreign and not self.unread_classes:
            return "scratch", "no method writes it after construction: it always holds its constructor value"
        if must and writers:
            m0 = must[0]
            return "carried", f"`{writers[0][1]}` in {writers[0][0].rsplit('.', 2)[-2]}.{writers[0][0].rsplit('.', 1)[1]} stores run-time data; {m0[0]} reads it before writing it (`{m0[1][1] if m0[1] else ''}`{' at ' + m0[1][0] if m0[1] else ''})"
        if not may and not foreign and not self.unread_classes:
            return "scratch", ("no method stores run-time data into it" if not writers else "every method that reads it has written it before on every path")
        why = f"possible cross-call reads {may[:3]}" if may else (f"accesses this check does not read at {foreign[:2]}" if foreign else f"classes not read {self.unread_classes[:2]}")
        return "unknown", why

    def _in_state_protocol(self, n):
        """The access sits in the constructor / __getstate__ / __setstate__ of a class of the family: it sees the fresh or the pickled value, not carried state."""
        p_ = getattr(n, "_parent", None)
        while p_ is not None and not isinstance(p_, (ast.FunctionDef, ast.AsyncFunctionDef, ast.Lambda)):
            p_ = getattr(p_, "_parent", None)
        if not isinstance(p_, ast.FunctionDef) or p_.name not in ("__init__", "__setstate__", "__getstate__"):
            return False
        c_ = getattr(p_, "_parent", None)
        return isinstance(c_, ast.ClassDef) and any(self.repo.cls(q) is c_ for q in self.family)


def _slice_bounds(repo, mi, e, params=None, depth=0):
    """Upper bounds of slices `x[:B]` applied in expression e, following calls into repo functions (argument substitution by name)."""
    out = []
    for n in ast.walk(e):
        if isinstance(n, ast.Subscript) and isinstance(n.slice, ast.Slice) and n.slice.lower is None and n.slice.upper is not None:
            b = n.slice.upper
            if params and isinstance(b, ast.Name) and b.id in params:
                b = params[b.id]
            out.append(b)
        if isinstance(n, ast.Call) and isinstance(n.func, ast.Name) and depth < 2:
            r = repo.resolve_name(mi, n.func.id)
            if r and repo.has(r) and r.startswith("rl_blox."):
                try:
                    f = repo.func(r)
                except Exception:
                    continue
                pp = positional_params(f)
                sub = {p: a for p, a in zip(pp, n.args)}
                sub.update({k.arg: k.value for k in n.keywords if k.arg})
                if params:
                    sub = {k: (params.get(v.id, v) if isinstance(v, ast.Name) else v) for k, v in sub.items()}
                for st in f.body:
                    out += _slice_bounds(repo, f._module, st, sub, depth + 1)
    return out


def _local_temps(fn, exclude=()):
    """name -> value of the locals of `fn` that are assigned exactly once, by a plain top-level statement (not under a branch or loop), and are not
    parameters: they hold that value wherever they are read afterwards."""
    stores = {}
    for n in ast.walk(fn):
        if isinstance(n, ast.Name) and isinstance(n.ctx, (ast.Store, ast.Del)):
            stores[n.id] = stores.get(n.id, 0) + 1
        elif isinstance(n, (ast.Global, ast.Nonlocal)):
            for nm in n.names:
                stores[nm] = stores.get(nm, 0) + 2
    out = {}
    for x in fn.body:
        if isinstance(x, ast.Assign) and len(x.targets) == 1 and isinstance(x.targets[0], ast.Name):
            nm = x.targets[0].id
            if stores.get(nm) == 1 and nm not in param_names(fn) and nm not in exclude and not any(isinstance(c_, (ast.NamedExpr, ast.Await, ast.Yield, ast.YieldFrom)) for c_ in ast.walk(x.value)):
                out[nm] = x.value
    return out


def _subst_temps(e, temps, depth=0):
    """Expression e with the single-assignment locals replaced by their values (bounded depth)."""
    if not temps or not any(isinstance(n, ast.Name) and n.id in temps for n in ast.walk(e)):
        return e

    class _S(ast.NodeTransformer):
        def visit_Name(self_inner, n):
            if isinstance(n.ctx, ast.Load) and n.id in temps and depth < 5:
                return _subst_temps(clone(temps[n.id]), temps, depth + 1)
            return n

        def visit_comprehension(self_inner, n):
            return self_inner.generic_visit(n)
    # names bound inside e (comprehension / lambda variables) shadow a local of the same name
    bound = {n.id for n in ast.walk(e) if isinstance(n, ast.Name) and isinstance(n.ctx, ast.Store)} | {a.arg for n in ast.walk(e) if isinstance(n, ast.Lambda) for a in n.args.args}
    if bound & set(temps):
        temps = {k: v for k, v in temps.items() if k not in bound}
        if not temps:
            return e
    return ast.fix_missing_locations(ast.copy_location(_S().visit(clone(e)), e))


def _ring_cursors(repo, cq):
    """Attributes that are write cursors of a ring: `insert_idx` (the documented name) and every attribute some method advances modulo the
    capacity (`self.X = (self.X + k) % self.buffer_size`): it wraps to the front while the rows behind it stay valid."""
    out = {"insert_idx"}
    for c in repo.mro(cq):
        for meth in repo.cls(c).body:
            if not isinstance(meth, ast.FunctionDef):
                continue
            for s in ast.walk(meth):
                if isinstance(s, ast.Assign) and len(s.targets) == 1 and isinstance(s.targets[0], ast.Attribute) and dotted(s.targets[0].value) == "self" \
                        and isinstance(s.value, ast.BinOp) and isinstance(s.value.op, ast.Mod) and dotted(s.value.right) == "self.buffer_size" \
                        and any(isinstance(n_, ast.Attribute) and dotted(n_) == f"self.{s.targets[0].attr}" for n_ in ast.walk(s.value.left)):
                    out.add(s.targets[0].attr)
    return out


def _cursor_elsewhere(v, cursors):
    """The cursor occurs in v other than as the upper bound of a `[:cursor]` slice or as an argument handed to a function."""
    parent = {}
    for n in ast.walk(v):
        for ch in ast.iter_child_nodes(n):
            parent[id(ch)] = n
    for n in ast.walk(v):
        if isinstance(n, ast.Attribute) and dotted(n) in cursors:
            p_ = parent.get(id(n))
            if isinstance(p_, ast.Slice) and p_.upper is n and p_.lower is None and p_.step is None:
                continue
            if isinstance(p_, ast.Call) and any(a_ is n for a_ in p_.args):
                continue
            if isinstance(p_, ast.keyword):
                continue
            return True
    return False


def _const_names(repo, cq, e):
    """Tuple of strings a class-level constant (``self.NAME`` / ``cls.NAME`` / ``Class.NAME``) or a literal display holds, else None."""
    if isinstance(e, (ast.Tuple, ast.List)) and all(isinstance(x, ast.Constant) and isinstance(x.value, str) for x in e.elts):
        return [x.value for x in e.elts]
    d = dotted(e)
    if isinstance(e, ast.Name):
        # a module-level constant of the class's module (or of a base class's module)
        for c in repo.mro(cq):
            try:
                mi_ = repo.cls(c)._module
            except Exception:
                continue
            for n in mi_.tree.body:
                if isinstance(n, ast.Assign) and any(isinstance(t, ast.Name) and t.id == e.id for t in n.targets) and isinstance(n.value, (ast.Tuple, ast.List)):
                    return _const_names(repo, cq, n.value)
        return None
    if d and d.count(".") == 1 and d.split(".")[0] in ("self", "cls", "type(self)"):
        name = d.split(".")[1]
        for c in repo.mro(cq):
            for n in repo.cls(c).body:
                if isinstance(n, ast.Assign) and any(isinstance(t, ast.Name) and t.id == name for t in n.targets):
                    return _const_names(repo, cq, n.value) if isinstance(n.value, (ast.Tuple, ast.List)) else None
        # never assigned through self anywhere?  (an instance attribute of the same name would shadow the class constant)
    return None


def _key(mi, e):
    """The string a dict key expression denotes: a literal or a module-level string constant; else None."""
    if isinstance(e, ast.Constant) and isinstance(e.value, str):
        return e.value
    if isinstance(e, ast.Name):
        d = mi.defs.get(e.id)
        v = getattr(d, "value", None) if isinstance(d, (ast.Assign, ast.AnnAssign)) else None
        if isinstance(v, ast.Constant) and isinstance(v.value, str):
            return v.value
    return None


def _filtered_copy(repo, cq, mi, e):
    """Keys left out by `{k: v for k, v in self.__dict__.items() if k != "A" and k not in ("B", ..)}` (a copy of the instance dict without them); None for anything else."""
    if not (isinstance(e, ast.DictComp) and len(e.generators) == 1 and not e.generators[0].is_async):
        return None
    gen = e.generators[0]
    if not (isinstance(gen.target, ast.Tuple) and len(gen.target.elts) == 2 and all(isinstance(t, ast.Name) for t in gen.target.elts)):
        return None
    kn, vn = gen.target.elts[0].id, gen.target.elts[1].id
    if not (isinstance(e.key, ast.Name) and e.key.id == kn and isinstance(e.value, ast.Name) and e.value.id == vn and kn != vn):
        return None
    if ast.unparse(gen.iter) not in ("self.__dict__.items()", "vars(self).items()"):
        return None
    out = []
    tests = []
    for t in gen.ifs:
        tests += t.values if isinstance(t, ast.BoolOp) and isinstance(t.op, ast.And) else [t]
    for t in tests:
        if not (isinstance(t, ast.Compare) and len(t.ops) == 1 and isinstance(t.left, ast.Name) and t.left.id == kn):
            return None
        c = t.comparators[0]
        if isinstance(t.ops[0], ast.NotEq) and _key(mi, c) is not None:
            out.append(_key(mi, c))
        elif isinstance(t.ops[0], ast.NotIn) and isinstance(c, (ast.Tuple, ast.List, ast.Set)) and all(_key(mi, x) is not None for x in c.elts):
            out += [_key(mi, x) for x in c.elts]
        elif isinstance(t.ops[0], ast.NotIn) and _const_names(repo, cq, c) is not None:
            out += _const_names(repo, cq, c)
        else:
            return None
    return out


def _getstate(ck, repo, nf, cq, gq, g, init_vals):
    """Analyse one __getstate__; returns (removed keys, transformed keys) or raises AnalysisError on an unrecognised idiom."""
    gmi = repo.cls(gq)._module
    site = cq
    _need_self(g, f"{gq}.__getstate__")
    body = [x for x in g.body if not (isinstance(x, ast.Expr) and isinstance(x.value, ast.Constant))]
    rets = [x for x in ast.walk(g) if isinstance(x, ast.Return)]
    direct_copy = len(rets) == 1 and rets[0].value is not None and ast.unparse(rets[0].value) in COPY_FORMS
    ck.need(len(rets) == 1 and (isinstance(rets[0].value, (ast.Name, ast.DictComp)) or direct_copy), f"{gq}.__getstate__: expected a single `return <dict name>` (unrecognised idiom)")
    removed, transformed = [], {}
    if direct_copy:
        # `return dict(self.__dict__)`: a copy of the instance dict, nothing removed
        ck.need(rets[0] is body[-1], f"{gq}.__getstate__: `{short(rets[0], 70)}` (unrecognised idiom)")
        dn = "<returned dict>"
        defs = [ast.copy_location(ast.Assign(targets=[ast.Name(id=dn, ctx=ast.Store())], value=rets[0].value), rets[0])]
    elif isinstance(rets[0].value, ast.DictComp):
        # `return {k: v for k, v in self.__dict__.items() if k != "Batch"}`: a copy without the named keys
        fc = _filtered_copy(repo, cq, gmi, rets[0].value)
        ck.need(fc is not None and rets[0] is body[-1], f"{gq}.__getstate__: `{short(rets[0], 70)}` (unrecognised idiom)")
        removed += fc
        dn = "<returned dict>"
        defs = [rets[0]]
    else:
        dn = rets[0].value.id
        defs = [x for x in body if isinstance(x, ast.Assign) and dotted(x.targets[0]) == dn]
    # `ret = state; return ret`: the returned name is an alias of the dict that was built
    alias_stmts = []
    for _ in range(3):
        if len(defs) == 1 and isinstance(defs[0].value, ast.Name) and body and defs[0] is body[-2 if isinstance(body[-1], ast.Return) else -1]:
            alias_stmts.append(defs[0])
            dn = defs[0].value.id
            defs = [x for x in body if isinstance(x, ast.Assign) and dotted(x.targets[0]) == dn]
        else:
            break
    body = [x for x in body if not any(x is a_ for a_ in alias_stmts)]
    ck.need(len(defs) == 1, f"{gq}.__getstate__: `{dn}` has {len(defs)} definitions (unrecognised idiom)")
    src = ast.unparse(defs[0].value)
    is_copy = src in COPY_FORMS
    live = src in ("self.__dict__", "vars(self)")
    if isinstance(defs[0].value, ast.DictComp):
        fc = _filtered_copy(repo, cq, gmi, defs[0].value)
        if fc is not None:
            is_copy = True
            removed += [k_ for k_ in fc if k_ not in removed]
    ck.need(is_copy or live, f"{gq}.__getstate__: `{dn} = {src}` is neither a copy of the instance dict nor the dict itself (unrecognised idiom)")
    for x in body:
        if x is defs[0] or isinstance(x, ast.Return):
            continue
        if isinstance(x, ast.Delete):
            for t in x.targets:
                ck.need(isinstance(t, ast.Subscript) and dotted(t.value) == dn and _key(gmi, t.slice) is not None, f"{gq}.__getstate__: `{short(x)}` (unrecognised idiom)")
                removed.append(_key(gmi, t.slice))
        elif isinstance(x, ast.Expr) and isinstance(x.value, ast.Call) and isinstance(x.value.func, ast.Attribute) and dotted(x.value.func.value) == dn and x.value.func.attr == "pop" \
                and x.value.args and _key(gmi, x.value.args[0]) is not None:
            if len(x.value.args) > 1 and _key(gmi, x.value.args[0]) not in init_vals:
                continue    # d.pop("name", default) of a key no constructor sets: nothing is removed
            removed.append(_key(gmi, x.value.args[0]))
        elif isinstance(x, ast.Assign) and isinstance(x.targets[0], ast.Subscript) and dotted(x.targets[0].value) == dn and isinstance(x.targets[0].slice, ast.Constant):
            transformed[x.targets[0].slice.value] = x.value
        elif isinstance(x, ast.For) and isinstance(x.target, ast.Name) and not x.orelse and len(x.body) == 1 and _const_names(repo, cq, x.iter) is not None \
                and ((isinstance(x.body[0], ast.Delete) and len(x.body[0].targets) == 1 and isinstance(x.body[0].targets[0], ast.Subscript) and dotted(x.body[0].targets[0].value) == dn
                      and isinstance(x.body[0].targets[0].slice, ast.Name) and x.body[0].targets[0].slice.id == x.target.id)
                     or (isinstance(x.body[0], ast.Expr) and isinstance(x.body[0].value, ast.Call) and isinstance(x.body[0].value.func, ast.Attribute) and x.body[0].value.func.attr == "pop"
                         and dotted(x.body[0].value.func.value) == dn and x.body[0].value.args and isinstance(x.body[0].value.args[0], ast.Name) and x.body[0].value.args[0].id == x.target.id)):
            # `for k in <constant tuple of names>: del d[k]`
            removed += _const_names(repo, cq, x.iter)
        elif _is_logging(gmi, x):
            continue
        else:
            names = {n.id for n in ast.walk(x) if isinstance(n, ast.Name)}
            if dn in names or any(isinstance(n, ast.Attribute) and dotted(n) and dotted(n).startswith("self.") for n in ast.walk(x) if isinstance(getattr(n, "ctx", None), ast.Store)):
                raise AnalysisError(f"{gq}.__getstate__: `{short(x, 70)}` manipulates the pickled state in a way this check does not model")
    # single-assignment locals of __getstate__ (`n = self.insert_idx`, `rows = self.buffer`, also the temporaries of an expanded helper) are read with their value
    ltemps = _local_temps(g, {dn})
    transformed = {k_: _subst_temps(v_, ltemps) for k_, v_ in transformed.items()}
    # a dict that is only an alias of the live one: evidence of a difference only when something is then removed from it / replaced in it
    edits = bool(removed) or any(ast.unparse(v_) != f"self.{k_}" for k_, v_ in transformed.items())
    if is_copy or edits:
        ck.ob("R1-pickling-symmetry", site, "copies-dict", is_copy, f"{dn} = {src}", "" if is_copy else "__getstate__ edits the live instance dict: saving removes attributes from the object that keeps being used", loc(gmi, defs[0]))
    # unpicklable attributes must be removed
    dyn = sorted(a for a, (v, _) in init_vals.items() if _is_dynamic_class(v))
    # (a key whose value __getstate__ replaces is judged with the replacement below, not here)
    miss = sorted(set(dyn) - set(removed) - {k_ for k_, v_ in transformed.items() if ast.unparse(v_) != f"self.{k_}"})
    ck.ob("R1-pickling-symmetry", site, "unpicklable-removed", not miss, f"__getstate__ removes {sorted(removed)}; dynamically created classes / lambdas: {dyn}", "" if not miss else f"`{miss}` holds a dynamically created class and stays in the pickled state: pickling fails", loc(gmi, g))
    # entries added under a new key (a packed record): every ordinary attribute that was removed must at least be an input of one of
    # them - what is not handed to the packing code cannot be in the pickled state, and nothing can bring it back on reload
    added = {k: v for k, v in transformed.items() if k not in init_vals}
    if added:
        inputs = {dotted(n)[5:].split(".")[0] for v in added.values() for n in ast.walk(v) if isinstance(n, ast.Attribute) and dotted(n) and dotted(n).startswith("self.")}
        whole = any(_bare_name(v, "self") for v in added.values())
        # the packed value is not read completely: it goes through a method of the object (which sees every attribute) or through a local
        # of __getstate__ whose value this rule does not follow
        locals_ = {n.id for n in ast.walk(g) if isinstance(n, ast.Name) and isinstance(n.ctx, ast.Store)} - {dn} \
            - {n.id for v in added.values() for n in ast.walk(v) if isinstance(n, ast.Name) and isinstance(n.ctx, ast.Store)}
        whole = whole or any(isinstance(n, ast.Call) and isinstance(n.func, ast.Attribute) and dotted(n.func.value) == "self" for v in added.values() for n in ast.walk(v)) \
            or any(isinstance(n, ast.Name) and (n.id in locals_ or n.id == dn) for v in added.values() for n in ast.walk(v)) or "__dict__" in inputs
        for a in sorted(set(removed)):
            if a in init_vals and not _is_dynamic_class(init_vals[a][0]) and not whole:
                ok_in = a in inputs
                ck.ob("R1-pickling-symmetry", site, f"removed-data-is-packed:{a}", ok_in, f"`{a}` removed from the pickled dict; packed entries {sorted(added)} are built from {sorted(inputs)}",
                      "" if ok_in else f"`{a}` is dropped from the pickled state and is not an input of the packed record: its value at save time is lost, so the reloaded object cannot continue like the saved one (it can only be guessed from other fields)", loc(gmi, g))
    for k, v in transformed.items():
        same = ast.unparse(v) == f"self.{k}"
        if same:
            continue
        bounds = [_subst_temps(b, ltemps) for b in _slice_bounds(repo, gmi, v)]
        sc = Scope(None, gmi, {}, gq)
        btxt = [nf.poly(b, sc, None).canon() for b in bounds]
        # evidence: the bound is the write cursor itself (normal form), not merely an expression in which the cursor occurs
        # and what is cut is the stored attribute itself (the value put under its own key is computed from it)
        cursors = {"self." + c_ for c_ in _ring_cursors(repo, cq)}
        bad = [b for b in btxt if b in cursors]
        if bad and _cursor_elsewhere(v, cursors):
            raise AnalysisError(f"{gq}.__getstate__: the pickled `{k}` is cut at the write cursor and the cursor is used elsewhere in `{short(v, 50)}` (the rows behind it may be saved as well): not read (unrecognised form)")
        reads_own = k in init_vals and any(isinstance(n_, ast.Attribute) and dotted(n_) == f"self.{k}" for n_ in ast.walk(v))
        if bad and reads_own:
            ck.ob("R1-pickling-symmetry", site, f"transformed:{k}", False, f"d['{k}'] = {short(v, 70)} truncates at {bad}",
                  f"the pickled `{k}` is cut at the write cursor: once the ring has wrapped (insert_idx < current_len) the valid rows behind the cursor are not saved and reload as uninitialised memory", loc(gmi, v))
        else:
            raise AnalysisError(f"{gq}.__getstate__: the pickled `{k}` is transformed (`{short(v, 60)}`): whether __setstate__ inverts it is a round-trip question this check cannot decide")
    return sorted(set(removed)), transformed


def _setstate_chain(repo, cq):
    """Statements of __setstate__ with super().__setstate__(d) / Base.__setstate__(self, d) calls expanded, each tagged with its defining class."""
    out = []

    def walk(c, after, start=None, depth=0):
        if depth > 8:
            raise AnalysisError(f"{c}.__setstate__: chain of base-class calls too deep (unrecognised form)")
        if start is not None:
            m = repo.method(start, "__setstate__")
        elif after is None:
            m = repo.method(c, "__setstate__")
        else:
            mro = repo.mro(c)
            m = None
            for p in mro[mro.index(after) + 1:]:
                m = repo.method(p, "__setstate__", inherited=False)
                if m:
                    break
        if m is None:
            raise AnalysisError(f"{c}.__setstate__: super().__setstate__ has no target")
        owner, fn = m[0], m[1]
        omi = repo.cls(owner)._module
        for x in fn.body:
            if isinstance(x, ast.Expr) and isinstance(x.value, ast.Constant):
                continue
            call = x.value if isinstance(x, ast.Expr) and isinstance(x.value, ast.Call) else None
            if call is not None and isinstance(call.func, ast.Attribute) and call.func.attr == "__setstate__":
                recv = call.func.value
                if isinstance(recv, ast.Call) and dotted(recv.func) == "super" and not recv.keywords and (not recv.args or (len(recv.args) == 2 and dotted(recv.args[1]) == "self")):
                    if recv.args:
                        # super(K, self): continue behind K in the MRO of the analysed class
                        k = repo.resolve_expr(omi, recv.args[0])
                        if k is None or k not in repo.mro(c):
                            raise AnalysisError(f"{owner}.__setstate__: `{short(x, 60)}` (unrecognised form)")
                        walk(c, k, None, depth + 1)
                    else:
                        walk(c, owner, None, depth + 1)
                    continue
                k = repo.resolve_expr(omi, recv) if dotted(recv) else None
                if k is not None and k in repo.mro(c) and call.args and dotted(call.args[0]) == "self":
                    walk(c, None, k, depth + 1)      # Base.__setstate__(self, d)
                    continue
                raise AnalysisError(f"{owner}.__setstate__: `{short(x, 60)}` (unrecognised form)")
            out.append((owner, fn, x))
    walk(cq, None)
    return out


def _restore_form(x, dparam):
    """'update' / 'assign' when statement x puts the pickled dict (parameter `dparam`) back into the instance dict, else None."""
    def inst_dict(e):
        return dotted(e) == "self.__dict__" or (isinstance(e, ast.Call) and dotted(e.func) == "vars" and len(e.args) == 1 and not e.keywords and dotted(e.args[0]) == "self")

    def is_d(e):
        return isinstance(e, ast.Name) and e.id == dparam
    if isinstance(x, ast.Expr) and isinstance(x.value, ast.Call) and isinstance(x.value.func, ast.Attribute) and x.value.func.attr == "update" and inst_dict(x.value.func.value):
        c = x.value
        if len(c.args) == 1 and not c.keywords and is_d(c.args[0]):
            return "update"
        if not c.args and len(c.keywords) == 1 and c.keywords[0].arg is None and is_d(c.keywords[0].value):
            return "update"
        return None
    if isinstance(x, ast.AugAssign) and isinstance(x.op, ast.BitOr) and inst_dict(x.target) and is_d(x.value):
        return "update"
    if isinstance(x, ast.Assign) and len(x.targets) == 1 and dotted(x.targets[0]) == "self.__dict__" and is_d(x.value):
        return "assign"
    return None


PURE_SCALAR_FUNCS = ("min", "max", "int", "abs")


def _self_inputs(e):
    """Attributes X of the `self.X` reads when expression e is arithmetic over plain attributes of the object and literals only (a value that the
    restored attributes determine); None: anything else (locals, elements, method calls, other objects)."""
    out = set()
    parent_attr = {id(n.value) for n in ast.walk(e) if isinstance(n, ast.Attribute)}
    for n in ast.walk(e):
        if isinstance(n, ast.Attribute):
            if not (isinstance(n.value, ast.Name) and n.value.id == "self" and isinstance(n.ctx, ast.Load)) or id(n) in parent_attr:
                return None
            out.add(n.attr)
        elif isinstance(n, ast.Name):
            if n.id != "self" and n.id not in PURE_SCALAR_FUNCS:
                return None
        elif isinstance(n, ast.Call):
            if not (isinstance(n.func, ast.Name) and n.func.id in PURE_SCALAR_FUNCS and not n.keywords and not any(isinstance(a, ast.Starred) for a in n.args)):
                return None
        elif not isinstance(n, (ast.BinOp, ast.UnaryOp, ast.Constant, ast.operator, ast.unaryop, ast.expr_context, ast.IfExp, ast.Compare, ast.cmpop, ast.BoolOp, ast.boolop)):
            return None
    return out


def _plus_one(e, attr):
    """e is `self.attr + 1` / `1 + self.attr`."""
    if isinstance(e, ast.BinOp) and isinstance(e.op, ast.Add):
        for a, b in ((e.left, e.right), (e.right, e.left)):
            if dotted(a) == f"self.{attr}" and isinstance(b, ast.Constant) and type(b.value) is int and b.value == 1:
                return True
    return False


def _advance_modulus(v, attr):
    """The attribute X when v is `(self.attr + 1) % self.X`: a ring cursor step; for a capacity of two or more the new value differs from the old one."""
    if isinstance(v, ast.BinOp) and isinstance(v.op, ast.Mod) and _plus_one(v.left, attr) and isinstance(v.right, ast.Attribute) and dotted(v.right.value) == "self" and v.right.attr != attr:
        return v.right.attr
    return None


def _saturation_bound(v, attr):
    """The bound expression E when v is `min(self.attr + 1, E)` (either order), E arithmetic over other attributes: a counter that stays at E once it got there."""
    if isinstance(v, ast.Call) and isinstance(v.func, ast.Name) and v.func.id == "min" and len(v.args) == 2 and not v.keywords:
        for a, b in ((v.args[0], v.args[1]), (v.args[1], v.args[0])):
            if _plus_one(a, attr):
                ins = _self_inputs(b)
                if ins is not None and attr not in ins and not any(isinstance(n, ast.Call) for n in ast.walk(b)):
                    return b, ins
    return None


def _attr_stores(fn, attr):
    """Statements of fn (nested functions included) that store into self.<attr> or its elements, or delete it."""
    out = []
    for s in ast.walk(fn):
        tg = []
        if isinstance(s, ast.Assign):
            tg = s.targets
        elif isinstance(s, (ast.AugAssign, ast.AnnAssign)):
            tg = [s.target]
        elif isinstance(s, ast.Delete):
            tg = s.targets
        elif isinstance(s, (ast.For, ast.AsyncFor)):
            tg = [s.target]
        elif isinstance(s, (ast.With, ast.AsyncWith)):
            tg = [i.optional_vars for i in s.items if i.optional_vars is not None]
        elif isinstance(s, ast.NamedExpr):
            tg = [s.target]
        for t in tg:
            for tt in ast.walk(t):
                base = tt
                while isinstance(base, (ast.Subscript, ast.Starred)):
                    base = base.value
                if dotted(base) == f"self.{attr}" and isinstance(getattr(tt, "ctx", None), (ast.Store, ast.Del)):
                    out.append(s)
                    break
            else:
                continue
            break
    return out


def _step_changes_only(repo, cq, fn, attr, inputs):
    """Evidence that one call of method fn changes `self.attr` while every attribute in `inputs` keeps its value - in the state where the saturating
    counter among them sits at its bound.  Returns a text (the witness) or None (no evidence; never a claim that there is no such step).

    Read: the only store to `attr` in fn is an unconditional top-level `self.attr = (self.attr + 1) % self.X` (a different value for X >= 2); every input
    is either not written by fn at all or written only by an unconditional top-level `self.I = min(self.I + 1, E)` with E over attributes fn does not
    write (at I == E the assignment stores E again); the methods fn calls write neither; nothing before the two statements leaves the method or tests
    the attributes involved (so the saturated state runs through them)."""
    if any(isinstance(n, ast.Call) and dotted(n.func) == "super" for n in ast.walk(fn)):
        return None
    if any(isinstance(n, (ast.FunctionDef, ast.AsyncFunctionDef, ast.Lambda, ast.Global, ast.Nonlocal, ast.Try, ast.While)) for x in fn.body for n in ast.walk(x)):
        return None
    pp = positional_params(fn)
    if not pp or pp[0] != "self" or fn.decorator_list:
        return None
    if any(isinstance(n, ast.Attribute) and dotted(n) in ("self.__dict__",) for n in ast.walk(fn)) or any(isinstance(n, ast.Call) and dotted(n.func) in ("setattr", "vars", "delattr") for n in ast.walk(fn)):
        return None
    st = _attr_stores(fn, attr)
    if len(st) != 1 or not any(st[0] is x for x in fn.body) or not isinstance(st[0], ast.Assign) or len(st[0].targets) != 1 or dotted(st[0].targets[0]) != f"self.{attr}":
        return None
    modulus = _advance_modulus(st[0].value, attr)
    if modulus is None:
        return None
    # what the callees write
    callee_roots = set()
    for n in ast.walk(fn):
        if isinstance(n, ast.Call):
            if any(_bare_name(a_.value if isinstance(a_, (ast.Starred, ast.keyword)) else a_, "self") for a_ in list(n.args) + list(n.keywords)):
                return None           # the object is handed on
            if isinstance(n.func, ast.Attribute) and dotted(n.func.value) == "self":
                try:
                    callee_roots |= {w.split(".")[0] for w in _write_set(repo, cq, n.func.attr)}
                except AnalysisError:
                    return None
                cm = repo.method(cq, n.func.attr)
                if cm is None or any(isinstance(y, (ast.Raise, ast.Assert)) for y in ast.walk(cm[1])):
                    return None       # a callee that may refuse the saturated state
    if ({attr, modulus} | set(inputs)) & callee_roots or "__dict__" in callee_roots:
        return None
    if _attr_stores(fn, modulus):
        return None
    key_stmts = [st[0]]
    saturating = []
    for i_ in sorted(inputs):
        s_i = _attr_stores(fn, i_)
        if not s_i:
            continue
        if len(s_i) != 1 or not any(s_i[0] is x for x in fn.body) or not isinstance(s_i[0], ast.Assign) or len(s_i[0].targets) != 1 or dotted(s_i[0].targets[0]) != f"self.{i_}":
            return None
        sb = _saturation_bound(s_i[0].value, i_)
        if sb is None:
            return None
        if any(_attr_stores(fn, b_) for b_ in sb[1]) or sb[1] & callee_roots or attr in sb[1]:
            return None
        saturating.append((i_, sb[0]))
        key_stmts.append(s_i[0])
    if len(saturating) > 1:
        return None
    # the saturated state reaches both statements: nothing before them returns / raises, no earlier test or assertion reads the attributes involved
    last = max(fn.body.index(x) for x in key_stmts)
    involved = {f"self.{attr}"} | {f"self.{i_}" for i_, _ in saturating}
    for x in fn.body[:last + 1]:
        for n in ast.walk(x):
            if isinstance(n, (ast.Return, ast.Raise, ast.Yield, ast.YieldFrom, ast.Await)):
                return None
            tests = []
            if isinstance(n, (ast.If, ast.IfExp, ast.While)):
                tests.append(n.test)
            elif isinstance(n, ast.Assert):
                tests.append(n.test)
            elif isinstance(n, ast.comprehension):
                tests += n.ifs
            elif isinstance(n, ast.Match):
                return None
            for t in tests:
                reads = {dotted(a_) for a_ in ast.walk(t) if isinstance(a_, ast.Attribute)}
                if isinstance(n, ast.Assert) and reads & involved:
                    return None
                if not isinstance(n, ast.Assert) and reads & involved and any(isinstance(y, (ast.Return, ast.Raise, ast.Continue, ast.Break)) for y in ast.walk(n)):
                    return None
    sat_txt = "; ".join(f"`self.{i_} = {short(next(s for s in key_stmts[1:] if dotted(s.targets[0]) == 'self.' + i_).value, 50)}` stores `{short(e_, 30)}` again once self.{i_} == {short(e_, 30)}" for i_, e_ in saturating)
    untouched = sorted(set(inputs) - {i_ for i_, _ in saturating})
    txt = f"`{short(st[0], 60)}` moves `{attr}` to another slot (for self.{modulus} >= 2)"
    if sat_txt:
        txt += f" while {sat_txt}"
    if untouched:
        txt += f" and writes none of {untouched}"
    return txt


def r1_recomputed_state(ck, repo, nf, cq):
    """R1, a necessary condition of "what __setstate__ recomputes equals what was saved": a value that __setstate__ computes from restored attributes is the
    same for two states that agree on those attributes.  When one call of a method provably changes the attribute and none of the inputs, the saved value
    is not a function of the inputs: for one of the two states the reloaded attribute differs from the saved one.  Only evidence is reported; everything
    that is not read leaves the judgement to the rules above (undecided there)."""
    if repo.method(cq, "__setstate__") is None:
        return
    try:
        chain = _setstate_chain(repo, cq)
        init_vals = _init_attr_values(repo, cq)
    except AnalysisError:
        return
    # names of instance attributes __getstate__ mentions as keys: their pickled value may not be the attribute's value
    gs = repo.method(cq, "__getstate__")
    touched = set()
    if gs is not None:
        gmi = repo.cls(gs[0])._module
        for n in ast.walk(gs[1]):
            if isinstance(n, ast.Constant) and isinstance(n.value, str):
                touched.add(n.value)
            elif isinstance(n, ast.Name) and _key(gmi, n) is not None:
                touched.add(_key(gmi, n))
        # anything through which an entry could change without its key being written out: not read
        dict_names = {t.id for n in ast.walk(gs[1]) if isinstance(n, ast.Assign) for t in n.targets if isinstance(t, ast.Name)}
        for n in ast.walk(gs[1]):
            if isinstance(n, ast.Call):
                if dotted(n.func) == "super" or (isinstance(n.func, ast.Attribute) and n.func.attr in ("update", "setdefault", "clear", "popitem", "__setitem__", "__delitem__")):
                    return
                if any(isinstance(a_, ast.Name) and a_.id in dict_names for a_ in list(n.args) + [k_.value for k_ in n.keywords]):
                    return
                if isinstance(n.func, ast.Attribute) and dotted(n.func.value) == "self" and _attr_write_roots(repo, cq, n.func.attr):
                    return
            elif isinstance(n, ast.Subscript) and isinstance(n.ctx, (ast.Store, ast.Del)) and _key(gmi, n.slice) is None:
                return
            elif isinstance(n, ast.Attribute) and isinstance(n.ctx, (ast.Store, ast.Del)):
                return
    restored_at = None
    for i, (owner, fn, x) in enumerate(chain):
        pps = [p_ for p_ in positional_params(fn) if p_ != "self"]
        if not pps:
            return
        if restored_at is None and _restore_form(x, pps[0]) is not None:
            restored_at = i
    if restored_at is None:
        return
    for i, (owner, fn, x) in enumerate(chain):
        if i <= restored_at or not (isinstance(x, ast.Assign) and len(x.targets) == 1 and isinstance(x.targets[0], ast.Attribute) and dotted(x.targets[0].value) == "self"):
            continue
        a = x.targets[0].attr
        if a not in init_vals or _is_dynamic_class(init_vals[a][0]) or _is_dynamic_class(x.value):
            continue
        inputs = _self_inputs(x.value)
        if not inputs or a in inputs:
            continue
        # the inputs hold their saved values when the assignment runs; the assignment decides the final value of the attribute
        if inputs & touched:
            continue
        others = [y for j, (_, _, y) in enumerate(chain) if j != i and j != restored_at]
        if any(_attr_stores(ast.Module(body=[y], type_ignores=[]), n_) for y in others for n_ in inputs | {a}):
            continue
        if any(isinstance(n, ast.Call) and isinstance(n.func, ast.Attribute) and (dotted(n.func.value) or "").split(".")[0] == "self" and n.func.attr not in ("items", "keys", "values", "get")
               for y in others for n in ast.walk(y)):
            continue
        if any(isinstance(n, ast.Call) and (dotted(n.func) in ("setattr", "delattr", "vars", "object.__setattr__") or any(_bare_name(a_, "self") for a_ in list(n.args) + [k_.value for k_ in n.keywords]))
               for y in others for n in ast.walk(y)):
            continue
        omi = repo.cls(owner)._module
        names = []
        for c in repo.mro(cq):
            for ch in repo.cls(c).body:
                if isinstance(ch, ast.FunctionDef) and ch.name not in names and ch.name not in NON_ENTRY:
                    names.append(ch.name)
        for nm in names:
            if nm.startswith("_") and not (nm.startswith("__") and nm.endswith("__")):
                continue          # the states before and after a private helper are not states in which the object can be saved
            m = repo.method(cq, nm)
            if m is None:
                continue
            w = _step_changes_only(repo, cq, m[1], a, inputs)
            if w is not None:
                ck.ob("R1-pickling-symmetry", cq, f"recomputed-is-function-of-inputs:{a}", False,
                      f"__setstate__ computes self.{a} = {short(x.value, 50)} from the restored {sorted(inputs)}; {m[0].rsplit('.', 1)[1]}.{nm}: {w}",
                      f"`{a}` is recomputed on reload from {sorted(inputs)}, but one call of {nm} changes `{a}` and leaves all of them as they are: two states "
                      f"the buffer passes through agree on {sorted(inputs)} and differ in `{a}`, so for one of them the reloaded `{a}` is not the saved one (a wrapped ring does not continue at the slot the saved buffer would write next)",
                      loc(omi, x))
                break


def _attr_write_roots(repo, cq, meth):
    try:
        return {w.split(".")[0] for w in _write_set(repo, cq, meth)}
    except AnalysisError:
        return {"?"}


def r1_buffers(ck, repo, nf):
    mod = repo.module(MODQ)
    classes = [f"{MODQ}.{n}" for n, d, _m2 in repo.module_members(MODQ) if isinstance(d, ast.ClassDef)]
    n_pairs = [0]

    def one_class(cq):
        cls = repo.cls(cq)
        mi = cls._module
        init_vals = _init_attr_values(repo, cq)
        dyn = sorted(a for a, (v, _) in init_vals.items() if _is_dynamic_class(v))
        gs, ss = repo.method(cq, "__getstate__"), repo.method(cq, "__setstate__")
        if not init_vals and repo.subclasses(cq):
            return     # a mixin without constructor: its state pair is judged in the classes that inherit it
        if gs is None and ss is None:
            if dyn:
                # the default protocol is replaced when the class reduces itself in another way
                other = [n_ for n_ in ("__reduce__", "__reduce_ex__", "__getnewargs__", "__getnewargs_ex__", "__copyreg__") if repo.method(cq, n_)]
                ck.need(not other, f"{cq}: pickled through {other} (unrecognised form)")
            ck.ob("R1-pickling-symmetry", cq, "default-pickling-ok", not dyn, f"dynamic-class / lambda attributes: {dyn}", "" if not dyn else "a class pickled by default holds an unpicklable attribute", loc(mi, cls))
            return
        ok = gs is not None and ss is not None
        if not ok:
            # half a pair is evidence of a difference only together with what the present half does: a __getstate__ that removes attributes which
            # the default __setstate__ cannot bring back, or a default __getstate__ that meets an unpicklable attribute
            if gs is not None:
                removed_, transformed_ = _getstate(ck, repo, nf, cq, gs[0], gs[1], init_vals)
                ck.need(bool(removed_), f"{cq}: __getstate__ without __setstate__ and nothing is removed from the pickled state (unrecognised form)")
            else:
                ck.need(bool(dyn), f"{cq}: __setstate__ without __getstate__ and no unpicklable attribute (unrecognised form)")
        ck.ob("R1-pickling-symmetry", cq, "has-state-pair", ok, f"__getstate__ {'from ' + gs[0].rsplit('.', 1)[1] if gs else 'missing'}; __setstate__ {'from ' + ss[0].rsplit('.', 1)[1] if ss else 'missing'}",
              "" if ok else "__getstate__ and __setstate__ must come as a pair", loc(mi, cls))
        if not ok:
            return
        n_pairs[0] += 1
        removed, transformed = _getstate(ck, repo, nf, cq, gs[0], gs[1], init_vals)
        # ---- __setstate__ ----
        chain = _setstate_chain(repo, cq)
        restored_at, restored_how = None, None
        rebuilt = {}
        temps, temp_reads_self_at = {}, {}
        dparams = set()
        called_writes = set()     # attributes written by methods that __setstate__ calls (not read as rebuilding assignments)

        class _Sub(ast.NodeTransformer):
            used = None

            def visit_Name(self_inner, n):
                if isinstance(n.ctx, ast.Load) and n.id in temps:
                    if self_inner.used is not None:
                        self_inner.used.add(n.id)
                    return clone(temps[n.id])
                return n

        def names_of(e):
            return {n_.id for n_ in ast.walk(e) if isinstance(n_, ast.Name)}
        for i, (owner, fn, x) in enumerate(chain):
            omi = repo.cls(owner)._module
            _need_self(fn, f"{owner}.__setstate__")
            pps = [p_ for p_ in positional_params(fn) if p_ != "self"]
            ck.need(len(pps) >= 1, f"{owner}.__setstate__: no parameter for the pickled state (unrecognised form)")
            dparam = pps[0]
            dparams.add(dparam)
            if isinstance(x, (ast.Assert, ast.Pass)) or _is_logging(omi, x):
                continue      # reads only
            eff_i = i
            if isinstance(x, ast.Assign) and len(x.targets) == 1 and isinstance(x.targets[0], ast.Name) and x.targets[0].id not in pps \
                    and not any(isinstance(c_, ast.Call) and isinstance(c_.func, ast.Attribute) and c_.func.attr in ("pop", "update", "clear", "setdefault", "popitem") for c_ in ast.walk(x.value)):
                # a local temporary (of an expanded helper): later uses are read with its value
                sub = _Sub()
                sub.used = set()
                temps[x.targets[0].id] = sub.visit(clone(x.value))
                at_ = min([temp_reads_self_at[u_] for u_ in sub.used if u_ in temp_reads_self_at] + ([i] if "self" in names_of(x.value) else []), default=None)
                if at_ is not None:
                    temp_reads_self_at[x.targets[0].id] = at_
                else:
                    temp_reads_self_at.pop(x.targets[0].id, None)
                continue
            if temps:
                sub = _Sub()
                sub.used = set()
                x2 = sub.visit(clone(x))
                ast.copy_location(x2, x)
                ast.fix_missing_locations(x2)
                x = x2
                # a temporary that reads the object was evaluated where it was assigned, not where it is used
                eff_i = min([i] + [temp_reads_self_at[u_] for u_ in sub.used if u_ in temp_reads_self_at])
            if isinstance(x, ast.Expr) and isinstance(x.value, ast.Call) and not (names_of(x) & ({"self"} | dparams)):
                continue      # logging / warnings: neither the object nor the pickled state is involved
            how = _restore_form(x, dparam)
            if how is not None:
                if restored_at is None:
                    restored_at, restored_how = i, how
                continue
            if isinstance(x, ast.Assign) and len(x.targets) == 1 and isinstance(x.targets[0], ast.Attribute) and dotted(x.targets[0].value) == "self":
                a = x.targets[0].attr
                if names_of(x.value) & dparams:
                    raise AnalysisError(f"{owner}.__setstate__: `{short(x, 60)}` restores an attribute from the pickled state by hand (unrecognised form)")
                rebuilt[a] = (x.value, omi, eff_i, x)
                continue
            if isinstance(x, ast.Expr) and isinstance(x.value, ast.Call) and isinstance(x.value.func, ast.Attribute) and dotted(x.value.func.value) and (dotted(x.value.func.value) == "self" or dotted(x.value.func.value).startswith("self.")):
                recv = dotted(x.value.func.value)
                call_args = list(x.value.args) + [k_.value for k_ in x.value.keywords]
                if any((names_of(a_) & dparams) or _bare_name(a_, "self") for a_ in call_args):
                    raise AnalysisError(f"{owner}.__setstate__: `{short(x, 60)}` hands the pickled state / the object to a method that was not expanded (unrecognised form)")
                if recv == "self":
                    ws = _write_set(repo, cq, x.value.func.attr)
                else:
                    types = _attr_types(repo, cq)
                    ck.need(recv.count(".") == 1 and recv[5:] in types, f"{owner}.__setstate__: cannot resolve `{recv}` (unrecognised idiom)")
                    ws = {recv[5:] + "." + w for w in _write_set(repo, types[recv[5:]], x.value.func.attr)}
                roots = {w.split(".")[0] for w in ws}
                ck.need("__dict__" not in roots, f"{owner}.__setstate__: `{short(x, 60)}` writes the instance dict in a method that was not expanded (unrecognised form)")
                called_writes |= roots
                ws = {w for w in ws if w.split(".")[0] not in removed and not _is_lazy_cache(repo, cq, w.split(".")[0])}
                if ws and not any(_state_evidence(repo, cq, w.split(".")[0]) for w in ws):
                    raise AnalysisError(f"{owner}.__setstate__: `{short(x, 60)}` writes {sorted(ws)}: neither a lazily recomputed cache nor recognisably state of the buffer (unrecognised form)")
                ck.ob("R1-pickling-symmetry", cq, f"setstate-call:{short(x.value.func, 40)}", not ws, f"`{short(x, 60)}` writes {sorted(ws) if ws else 'nothing that was pickled'}",
                      "" if not ws else f"__setstate__ recomputes {sorted(ws)} after restoring it: the reloaded object differs from the saved one (e.g. a running maximum replaced by the current maximum) and evolves differently",
                      loc(omi, x))
                continue
            raise AnalysisError(f"{owner}.__setstate__: `{short(x, 70)}` (unrecognised idiom)")
        ck.ob("R1-pickling-symmetry", cq, "restores-dict", restored_at is not None, "self.__dict__.update(d)" if restored_at is not None else "no restoration of the pickled attributes",
              "" if restored_at is not None else "__setstate__ must restore the pickled attributes", loc(repo.cls(ss[0])._module, ss[1]))

        def in_order(v, i):
            """The rebuilding assignment sees the restored attributes (or does not need them)."""
            if restored_at is None:
                return False
            if i > restored_at:
                return True
            if restored_how == "assign":
                return False      # self.__dict__ = d afterwards drops what was assigned before
            return "self" not in names_of(v)
        for a in removed:
            if a not in rebuilt:
                ck.need(a not in called_writes, f"{cq}: `{a}` is removed by __getstate__ and written by a method __setstate__ calls, which is not read as a rebuilding assignment (unrecognised form)")
                ck.need(a in init_vals, f"{cq}: `{a}` is removed by __getstate__ but no constructor sets it (unrecognised form)")
                derived = a in init_vals and _is_dynamic_class(init_vals[a][0])
                ck.ob("R1-pickling-symmetry", cq, f"rebuilt:{a}", False, f"`{a}` is removed by __getstate__ and not rebuilt",
                      f"`{a}` is {'needed by sample_batch' if derived else 'ordinary data'} and is missing after reload", loc(repo.cls(ss[0])._module, ss[1]))
        for a, (v, omi, i, x) in rebuilt.items():
            if a in removed or a in transformed:
                if a in transformed:
                    continue  # decided (or declared undecidable) with the transformation
                ck.need(a in init_vals, f"{cq}: `{a}` rebuilt in __setstate__ but never set in __init__")
                oko = in_order(v, i)
                if not _is_dynamic_class(init_vals[a][0]) and not _is_dynamic_class(v):
                    # a derived value (cache) that is dropped from the pickled state and recomputed from the restored attributes: whether
                    # the recomputed value equals the one at save time is a question about the class's invariants, not decided here
                    if ast.unparse(_unwrap_iter(v)) == ast.unparse(_unwrap_iter(init_vals[a][0])):
                        # reset to the constructor value: harmless for scratch data (every reader writes it first) and for lazily recomputed
                        # caches; for *carried* state - one call stores run-time data, a later call reads it - the value at save time is lost
                        if not (_is_lazy_cache(repo, cq, a) and isinstance(v, ast.Constant) and v.value is None):
                            verdict, wtxt = _AttrLife(repo, cq, a, [r_ for r_ in removed if r_ in init_vals and not _is_dynamic_class(init_vals[r_][0])]).decide()
                            if verdict == "unknown":
                                raise AnalysisError(f"{cq}: `{a}` is dropped from the pickled state and reset to its constructor value; whether a later call needs the saved value is not decided: {wtxt} (unrecognised form)")
                            ck.ob("R1-pickling-symmetry", cq, f"dropped-is-scratch:{a}", verdict == "scratch", f"`{a}` is removed by __getstate__ and reset to `{short(v, 40)}`: {wtxt}",
                                  "" if verdict == "scratch" else f"`{a}` carries information from one call to a later one and is dropped from the pickled state: a buffer saved between the two calls continues differently after reload (the later call works on the constructor value instead of the saved one)", loc(omi, x))
                        ck.ob("R1-pickling-symmetry", cq, f"rebuilt:{a}", oko, f"self.{a} = {short(v, 60)} as in __init__", "" if oko else "the attribute is rebuilt from self.* before the pickled attributes are restored", loc(omi, x))
                        continue
                    raise AnalysisError(f"{cq}: `{a}` is dropped from the pickled state and recomputed as `{short(v, 50)}` (a derived value; __init__ sets `{short(init_vals[a][0], 30)}`): equality with the saved value is not decided")
                gotp = nf.poly(_unwrap_iter(v), Scope(None, omi, {}, cq), None)
                wantp = nf.poly(_unwrap_iter(init_vals[a][0]), Scope(None, init_vals[a][1], {}, cq), None)
                got, want = gotp.canon(), wantp.canon()
                okv = got == want
                if not okv:
                    # a difference is evidence only when both sides are read completely (built from self.* and literals) and the rebuilt value
                    # uses the ingredients of the constructor's, at most reordered (sorted / reversed): another spelling is not a difference
                    free = {n_.id for e_ in (_unwrap_iter(v), _unwrap_iter(init_vals[a][0])) for n_ in ast.walk(e_) if isinstance(n_, ast.Name)} - {"self", "namedtuple", "collections", "list", "tuple", "sorted", "reversed", "dict"}
                    if free:
                        raise AnalysisError(f"{cq}: `{a}` is rebuilt as `{short(v, 50)}` and created as `{short(init_vals[a][0], 50)}`: the names {sorted(free)[:3]} are not read (unrecognised form)")
                    if "⟦" in got + want or "φ(" in got + want or not same_ingredients(gotp, wantp, ("sorted", "reversed")):
                        raise AnalysisError(f"{cq}: `{a}` is rebuilt as `{short(v, 50)}` and created as `{short(init_vals[a][0], 50)}`: not the same ingredients, equality is not decided (unrecognised form)")
                ck.ob("R1-pickling-symmetry", cq, f"rebuilt:{a}", okv and oko, f"self.{a} = {short(v, 60)} ({'after' if oko else 'before'} the dict is restored); __init__: {short(init_vals[a][0], 60)}",
                      "" if okv and oko else ("the rebuilt attribute differs from the one __init__ creates (field order / names of the batch type change after reload)" if not okv else "the attribute is rebuilt from self.* before the pickled attributes are restored"), loc(omi, x))
            else:
                if dotted(_strip_identity(v)) == f"self.{a}" or nf.poly(v, Scope(None, omi, {}, cq), None).canon() == f"self.{a}":
                    continue      # self.a = np.asarray(self.a): the restored value is kept
                cache = _is_lazy_cache(repo, cq, a)
                same_as_init = a in init_vals and ast.unparse(init_vals[a][0]) == ast.unparse(v)
                ok = cache and same_as_init
                if cache and not same_as_init:
                    raise AnalysisError(f"{cq}: __setstate__ sets the lazily recomputed `{a}` to `{short(v, 40)}`, not to its constructor value: equality with the saved value is not decided (unrecognised form)")
                if not cache and not _state_evidence(repo, cq, a) and _AttrLife(repo, cq, a, [r_ for r_ in list(removed) + list(rebuilt) if r_ in init_vals and not _is_dynamic_class(init_vals[r_][0])]).decide()[0] != "carried":
                    raise AnalysisError(f"{cq}: __setstate__ assigns `{a}` (`{short(v, 40)}`): neither a lazily recomputed cache nor recognisably state of the buffer (unrecognised form)")
                ck.ob("R1-pickling-symmetry", cq, f"setstate-write:{a}", ok, f"self.{a} = {short(v, 50)}" + (" (lazily recomputed cache reset to its constructor value)" if ok else ""),
                      "" if ok else f"__setstate__ overwrites `{a}`, which was saved: the reloaded object differs from the saved one", loc(omi, x))
    for cq in classes:
        ck.guard(one_class, cq)
        ck.guard(r1_recomputed_state, ck, repo, nf, cq)
    ck.floor("state-pairs", n_pairs[0], 5)


# ---------------------------------------------------------------------------------------------------------------------------
SPLIT = ("nnx.split", "flax.nnx.split")
STATE = ("nnx.state", "flax.nnx.state")
MERGE = ("nnx.merge", "flax.nnx.merge")
STRICT_FILTERS = tuple(p_ + n_ for p_ in ("nnx.", "flax.nnx.") for n_ in ("Param", "BatchStat", "RngState", "RngKey", "RngCount", "Cache", "Intermediate", "LoRAParam"))
TREE_MAPS = ("jax.tree.map", "jax.tree_util.tree_map", "jax.tree_map")


def _root_name(cfg, at, e, depth=0):
    """The parameter name / attribute chain an expression denotes when followed through plain copies (`m = model`); None when it is anything else."""
    if depth > 6:
        return None
    if isinstance(e, ast.Name):
        ds = cfg.defs_of(at, e.id)
        if not ds:
            return None
        if all(d.kind == "param" for d in ds):
            return e.id
        roots = set()
        for d in ds:
            if d.kind == "assign" and isinstance(d.value, (ast.Name, ast.Attribute)):
                roots.add(_root_name(cfg, d.node, d.value, depth + 1))
            else:
                return None
        return roots.pop() if len(roots) == 1 else None
    if isinstance(e, ast.Attribute):
        return dotted(e)
    return None


def _catch_all(a):
    return (isinstance(a, ast.Constant) and (a.value is Ellipsis or a.value is True)) or dotted(a) in ("nnx.Variable", "flax.nnx.Variable")


def _split_part(c, pos, n_targets):
    """What element `pos` of nnx.split(model, *filters) is: 'graphdef' | 'full' | 'filtered' | None (not read)."""
    if c.keywords or any(isinstance(a, ast.Starred) for a in c.args) or not c.args:
        return None
    filters = c.args[1:]
    n = 1 + max(len(filters), 1)         # graphdef + one state per filter
    if n_targets is not None and n_targets != n:
        return None
    if pos is None or not isinstance(pos, int):
        return None
    if pos < 0:
        pos += n
    if pos == 0:
        return "graphdef"
    if not 1 <= pos < n:
        return None
    if not filters or (len(filters) == 1 and _catch_all(filters[0])):
        return "full"
    if dotted(filters[pos - 1]) in STRICT_FILTERS:
        return "filtered"            # the variables of one type only
    if any(dotted(f_) in STRICT_FILTERS for f_ in filters[:pos - 1]):
        return "filtered"            # what the earlier filters left over
    return None


def _passthrough(repo, mi, fexpr):
    """(function, parameter name) when the repo function only moves one of its parameters to a device: every return is jax.device_put(<parameter>, ...) or the parameter itself."""
    if repo is None or mi is None:
        return None
    r = repo.resolve_expr(mi, fexpr)
    if not r or not repo.has(r):
        return None
    try:
        f = repo.func(r)
    except AnalysisError:
        return None
    names = set()
    for rt in (n for n in ast.walk(f) if isinstance(n, ast.Return)):
        v = rt.value
        if isinstance(v, ast.Call) and dotted(v.func) == "jax.device_put" and v.args and isinstance(v.args[0], ast.Name) and v.args[0].id in positional_params(f):
            names.add(v.args[0].id)
        elif isinstance(v, ast.Name) and v.id in positional_params(f):
            names.add(v.id)        # `if device is None: return state`
        else:
            return None
    if len(names) != 1:
        return None
    nm = names.pop()
    if any(isinstance(n, ast.Name) and n.id == nm and isinstance(n.ctx, ast.Store) for n in ast.walk(f)):
        return None
    return f, nm


def _kinds(cfg, at, e, ctx=None, depth=0, structural=False):
    """Set of what an expression that should denote (part of) a module can be along the reaching definitions:
    ('full', model) | ('graphdef', model) | ('param', name) | ('filtered', text) | ('loaded', text) | ('restored', call) | ('unknown', text)."""
    if depth > 8 or e is None:
        return [("unknown", "depth")]
    if isinstance(e, ast.Name):
        ds = cfg.defs_of(at, e.id)
        if not ds:
            return [("unknown", e.id)]
        if all(d.kind == "param" for d in ds):
            return [("param", e.id)]
        out = []
        for d in ds:
            if d.kind == "assign" and d.value is not None:
                ks = _kinds(cfg, d.node, d.value, ctx, depth + 1, structural)
            elif d.kind == "unpack" and isinstance(d.value, ast.Call) and dotted(d.value.func) in SPLIT and len(d.path) == 1:
                c = d.value
                st = cfg.nodes[d.node].ast
                tg = st.targets[0] if isinstance(st, ast.Assign) and len(st.targets) == 1 and isinstance(st.targets[0], (ast.Tuple, ast.List)) else None
                starred = tg is None or any(isinstance(x_, ast.Starred) for x_ in tg.elts)
                part = None if starred else _split_part(c, d.path[0], len(tg.elts))
                root = _root_name(cfg, d.node, c.args[0]) if c.args else None
                if part is None or (part in ("full", "graphdef") and root is None):
                    ks = [("unknown", short(c, 60))]
                elif part == "filtered":
                    ks = [("filtered", short(c, 60))]
                else:
                    ks = [(part, root)]
            else:
                ks = [("unknown", e.id)]
            out += [k for k in ks if k not in out]
        return out
    if isinstance(e, ast.IfExp):
        # `a if c else b` denotes one of its arms: what either arm can be (the test is not a value that flows on)
        out = []
        for arm in (e.body, e.orelse):
            out += [k for k in _kinds(cfg, at, arm, ctx, depth + 1, structural) if k not in out]
        return out
    if isinstance(e, ast.NamedExpr):
        return _kinds(cfg, at, e.value, ctx, depth + 1, structural)
    if isinstance(e, ast.Call):
        f = dotted(e.func)
        plain = not e.keywords and not any(isinstance(a, ast.Starred) for a in e.args)
        if f in STATE and plain and e.args:
            root = _root_name(cfg, at, e.args[0])
            filters = e.args[1:]
            if not filters or (len(filters) == 1 and _catch_all(filters[0])):
                return [("full", root)] if root else [("unknown", short(e, 60))]
            if len(filters) == 1 and dotted(filters[0]) in STRICT_FILTERS:
                return [("filtered", short(e, 60))]
            return [("unknown", short(e, 60))]
        if f in ("nnx.graphdef", "flax.nnx.graphdef") and plain and len(e.args) == 1:
            root = _root_name(cfg, at, e.args[0])
            return [("graphdef", root)] if root else [("unknown", short(e, 60))]
        if f == "jax.device_put" and e.args and not isinstance(e.args[0], ast.Starred):
            return _kinds(cfg, at, e.args[0], ctx, depth + 1, structural)
        if structural and f in TREE_MAPS and plain and len(e.args) == 2:
            return _kinds(cfg, at, e.args[1], ctx, depth + 1, structural)      # same tree structure, which is all a restore target is used for
        if f in ("pickle.load", "pickle.loads"):
            return [("loaded", short(e, 40))]
        if isinstance(e.func, ast.Attribute) and e.func.attr == "restore":
            return [("restored", e)]
        pt = _passthrough(ctx[0], ctx[1], e.func) if ctx and isinstance(e.func, (ast.Name, ast.Attribute)) else None
        if pt is not None and plain or (pt is not None and all(k.arg for k in e.keywords) and not any(isinstance(a, ast.Starred) for a in e.args)):
            from ..repo import bind_call
            arg = bind_call(pt[0], e).get(pt[1])
            if arg is not None:
                return _kinds(cfg, at, arg, ctx, depth + 1, structural)
    if isinstance(e, ast.Subscript) and isinstance(e.value, ast.Call) and dotted(e.value.func) in SPLIT and isinstance(e.slice, ast.Constant):
        c = e.value
        part = _split_part(c, e.slice.value, None)
        root = _root_name(cfg, at, c.args[0]) if c.args else None
        if part == "filtered":
            return [("filtered", short(c, 60))]
        if part in ("full", "graphdef") and root:
            return [(part, root)]
        return [("unknown", short(e, 60))]
    return [("unknown", short(e, 60))]


def _judge(where, kinds, good, params):
    """(ok, kind shown).  ok needs every reaching value to be `good`; a violation needs one that is read and is something else
    (a state of / graphdef of something that is not a parameter of the function is not read); otherwise the analysis is undecided."""
    def unread(k):
        return k[0] == "unknown" or (k[0] in ("full", "graphdef") and k[1] not in params) or (k[0] == "param" and k[1] not in params)
    bad = [k for k in kinds if not good(k) and not unread(k)]
    if bad:
        return False, bad[0]
    unk = [k for k in kinds if not good(k)]
    if unk:
        raise AnalysisError(f"{where}: provenance of `{unk[0][1] if isinstance(unk[0][1], str) else short(unk[0][1], 40)}` not recognised (unrecognised form)")
    return True, kinds[0]


def _ktxt(k):
    return f"{k[0]}" + (f" of `{k[1]}`" if k[0] in ("full", "graphdef") and isinstance(k[1], str) else (f" `{k[1]}`" if k[0] == "param" else ""))


def _calls(cfg, pred):
    return [(n, c) for n in cfg.nodes if n.ast is not None and n.kind in ("stmt", "with") for c in ast.walk(n.ast if n.kind == "stmt" else ast.Module(body=[ast.Expr(value=i.context_expr) for i in n.ast.items], type_ignores=[])) if isinstance(c, ast.Call) and pred(c)]


def _alias_values(cfg, at, e, where, depth=0):
    """(node, expression) pairs a value can come from, names followed through their (plain) assignments."""
    if isinstance(e, ast.Name) and depth < 6:
        ds = cfg.defs_of(at, e.id)
        if ds and all(d.kind == "assign" and d.value is not None for d in ds):
            out = []
            for d in ds:
                out += _alias_values(cfg, d.node, d.value, where, depth + 1)
            return out
        if ds and all(d.kind == "param" for d in ds):
            return [(at, e)]
        raise AnalysisError(f"{where}: `{e.id}` has a definition this check cannot follow (unrecognised form)")
    if isinstance(e, ast.IfExp) and depth < 6:
        # `a if c else b`: the value is one of the arms
        return _alias_values(cfg, at, e.body, where, depth + 1) + _alias_values(cfg, at, e.orelse, where, depth + 1)
    return [(at, e)]


def r2_pickle_helper(ck, repo, nf):
    q = "rl_blox.util.serialize.save_pickle"
    fn = repo.func(q)
    mi = fn._module
    cfg = nf.cfg_of(fn)
    ctx = (repo, mi)
    dumps = _calls(cfg, lambda c: dotted(c.func) == "pickle.dump")
    ck.need(len(dumps) >= 1, f"{q}: no pickle.dump call (anchor vanished)")
    ck.need(len(positional_params(fn)) > 1, f"{q}: signature changed (anchor vanished)")
    netp = positional_params(fn)[1]
    params = set(param_names(fn))
    for n, c in dumps:
        obj = arg_of(c, 0, "obj")
        ck.need(obj is not None, f"{q}: `{short(c, 50)}`: dumped object not found (unrecognised form)")
        ok, kind = _judge(q, _kinds(cfg, n.id, obj, ctx), lambda k: k == ("full", netp), params)
        ck.ob("R2-pickle-helper", q, "dumps-state", ok, f"pickle.dump({short(obj)}, ..) <- {_ktxt(kind)}",
              "" if ok else ("only part of the module state is saved (filtered split): the remaining variables are lost on reload" if kind[0] == "filtered" else f"the dumped object is the {_ktxt(kind)}, not the state of the given module"), loc(mi, c))
    p = cfg.paths_avoiding(cfg.entry, cfg.exit, {n.id for n, _ in dumps})
    ck.ob("R2-pickle-helper", q, "dump-on-every-path", p is None, "every path through save_pickle dumps", "" if p is None else "a path returns without writing the file", loc(mi, dumps[0][1]), cfg.describe_path(p) if p else None)
    q = "rl_blox.util.serialize.load_pickle"
    fn = repo.func(q)
    mi = fn._module
    cfg = nf.cfg_of(fn)
    ctx = (repo, mi)
    ck.need(len(positional_params(fn)) > 1, f"{q}: signature changed (anchor vanished)")
    gparam = positional_params(fn)[1]
    params = set(param_names(fn))
    rets = [n for n in cfg.nodes if n.kind == "stmt" and isinstance(n.ast, ast.Return)]
    ck.need(rets, f"{q}: no return")
    for r in rets:
        ck.need(r.ast.value is not None, f"{q}: a bare return (unrecognised form)")
        for at, e in _alias_values(cfg, r.id, r.ast.value, q):
            key = f"merge:{'device' if cfg.control_deps(at) and any(lab is True for _, lab in cfg.control_deps(at)) else 'default'}-branch"
            if isinstance(e, ast.Call) and dotted(e.func) in MERGE and len(e.args) >= 2 and not e.keywords and not any(isinstance(a, ast.Starred) for a in e.args):
                okg, kg = _judge(q, _kinds(cfg, at, e.args[0], ctx), lambda k: k == ("param", gparam), params)
                oks, ksts = True, []
                for s_ in e.args[1:]:
                    o_, k_ = _judge(q, _kinds(cfg, at, s_, ctx), lambda k: k[0] == "loaded", params)
                    oks = oks and o_
                    ksts.append(k_)
                ok = okg and oks
                ck.ob("R2-pickle-helper", q, key, ok, f"return <- {short(e, 60)}; graphdef <- {_ktxt(kg)}; state <- {', '.join(_ktxt(k_) for k_ in ksts)}",
                      "" if ok else "the returned module must be nnx.merge(<given graphdef>, <state loaded from the file>) on every branch", loc(mi, e))
            else:
                # not a merge: a violation when the returned value is read and is something else (the raw loaded state, the graphdef)
                ok, kind = _judge(q, _kinds(cfg, at, e, ctx), lambda k: False, params)
                ck.ob("R2-pickle-helper", q, key, False, f"return <- {short(e, 60)} <- {_ktxt(kind)}", "the returned module must be nnx.merge(<given graphdef>, <state loaded from the file>) on every branch", loc(mi, e))


def r3_checkpoints(ck, repo, nf):
    writers = [("rl_blox.logging.logger.StandardLogger", "_save_checkpoint"), ("rl_blox.logging.checkpointer.OrbaxCheckpointer", "save_model")]
    for cq, meth in writers:
        m = repo.method(cq, meth)
        ck.need(m is not None, f"{cq}.{meth} not found (anchor vanished)")
        fn = m[1]
        fn._module = repo.cls(m[0])._module
        mi = fn._module
        cfg = nf.cfg_of(fn)
        ctx = (repo, mi)
        site = f"{cq}.{meth}"

        def on_checkpointer(name):
            return [(n_, c_) for n_, c_ in _calls(cfg, lambda c: isinstance(c.func, ast.Attribute) and c.func.attr == name) if _root_name(cfg, n_.id, c_.func.value) == "self.checkpointer"]
        saves = on_checkpointer("save")
        ck.need(len(saves) == 1, f"{site}: expected one self.checkpointer.save call")
        n, c = saves[0]
        pps = [p_ for p_ in param_names(fn) if p_ != "self"]
        st = arg_of(c, 1, "state")
        ck.need(st is not None, f"{site}: `{short(c, 50)}`: saved object not found (unrecognised form)")
        ok, kind = _judge(site, _kinds(cfg, n.id, st, ctx), lambda k: k[0] == "full" and k[1] in pps, set(pps))
        ck.ob("R3-checkpoints", site, "saves-full-state", ok, f"save(.., {short(st)}) <- {_ktxt(kind)}",
              "" if ok else "the checkpoint must contain the complete module state: a variable filter (e.g. nnx.Param) drops non-parameter variables such as the tanh heads' action_scale / action_bias, which then come from the template on restore", loc(mi, c))
        waits = on_checkpointer("wait_until_finished")
        p = cfg.paths_avoiding(n.id, cfg.exit, {w.id for w, _ in waits})
        if p is not None:
            # a path from the save to the end without the wait: evidence unless the checkpointer is used on it in a way this rule does not read
            # (another method of it, or handed to a callee), which may wait as well
            for pid in p[1:-1]:
                nd = cfg.nodes[pid]
                if nd.ast is None:
                    continue
                src_ = nd.ast.test if nd.kind == "test" and hasattr(nd.ast, "test") else nd.ast
                for x_ in ast.walk(src_) if nd.kind in ("stmt", "test") else []:
                    if isinstance(x_, ast.Attribute) and dotted(x_) == "self.checkpointer":
                        raise AnalysisError(f"{site}: `{short(nd.ast, 50)}` uses the checkpointer after the save in a way this check does not read (unrecognised form)")
                    if isinstance(x_, ast.Name) and isinstance(x_.ctx, ast.Load) and _root_name(cfg, pid, x_) == "self.checkpointer":
                        raise AnalysisError(f"{site}: `{short(nd.ast, 50)}` uses the checkpointer after the save in a way this check does not read (unrecognised form)")
        ck.ob("R3-checkpoints", site, "waits-for-write", p is None, "save ; wait_until_finished on every path", "" if p is None else "the asynchronous write must be awaited before the method returns / the path is published", loc(mi, c), cfg.describe_path(p) if p else None)
    q = "rl_blox.blox.probabilistic_ensemble.restore_checkpoint"
    fn = repo.func(q)
    mi = fn._module
    cfg = nf.cfg_of(fn)
    ctx = (repo, mi)
    ck.need(len(positional_params(fn)) >= 2, f"{q}: signature changed (anchor vanished)")
    pathp, modelp = positional_params(fn)[:2]
    params = set(param_names(fn))
    rets = [n for n in cfg.nodes if n.kind == "stmt" and isinstance(n.ast, ast.Return)]
    ck.need(len(rets) == 1 and rets[0].ast.value is not None, f"{q}: expected one return")
    vals = _alias_values(cfg, rets[0].id, rets[0].ast.value, q)
    ck.need(len(vals) == 1, f"{q}: returned value not a single definition")
    at, e = vals[0]
    ck.need(isinstance(e, ast.Call) and dotted(e.func) in MERGE and len(e.args) >= 2 and not e.keywords and not any(isinstance(a, ast.Starred) for a in e.args), f"{q}: result is not an nnx.merge(graphdef, state..) (unrecognised idiom)")
    okg, g = _judge(q, _kinds(cfg, at, e.args[0], ctx), lambda k: k == ("graphdef", modelp), params)
    ck.ob("R3-checkpoints", q, "merges-own-graphdef", okg, f"merge({short(e.args[0])}, ...) <- {_ktxt(g)}", "" if okg else "the restored state must be merged with the graphdef of the given model", loc(mi, e))
    states = e.args[1:]
    kinds, other = [], []
    for s_ in states:
        o_, k_ = _judge(q, _kinds(cfg, at, s_, ctx), lambda k: k[0] == "restored", params)
        kinds.append(k_)
        if not o_:
            other.append((s_, k_))
    n_rest = []
    for s_ in states:
        for k_ in _kinds(cfg, at, s_, ctx):
            if k_[0] == "restored" and not any(k_[1] is r_[1] for r_ in n_rest):
                n_rest.append(k_)
    ok = len(n_rest) == 1 and not other
    ck.need(ok or other, f"{q}: {len(n_rest)} restore calls reach the merge (unrecognised form)")
    ck.ob("R3-checkpoints", q, "state-from-checkpoint-only", ok, f"merge(graphdef, {', '.join(short(s) for s in states)}) <- {[k[0] for k in kinds]}",
          "" if ok else f"part of the returned module's state ({[short(s) for s, _ in other]}) does not come from the checkpoint but from the template model: the reload differs whenever the template differs (e.g. other action bounds)", loc(mi, e))
    for k in n_rest:
        rc = k[1]
        ck.need(all(kw.arg for kw in rc.keywords) and not any(isinstance(a, ast.Starred) for a in rc.args), f"{q}: `{short(rc, 50)}` (unrecognised form)")
        rat = cfg.node_of(rc).id
        # the directory: the given path itself; a violation needs a directory that is read and is not derived from the path parameter
        d_ = arg_of(rc, 0, "directory", "path")
        ck.need(d_ is not None, f"{q}: `{short(rc, 50)}`: directory not found (unrecognised form)")
        okp = _root_name(cfg, rat, d_) == pathp
        if not okp:
            reads = {n_.id for n_ in ast.walk(d_) if isinstance(n_, ast.Name)}
            derived = any(_root_name(cfg, rat, ast.Name(id=n_, ctx=ast.Load())) == pathp or not all(dd.kind == "param" for dd in cfg.defs_of(rat, n_)) for n_ in reads)
            if derived or not (isinstance(d_, ast.Constant) or (isinstance(d_, ast.Name) and d_.id in params)):
                raise AnalysisError(f"{q}: the restore directory `{short(d_, 40)}` is not the path parameter itself (unrecognised form)")
        ck.ob("R3-checkpoints", q, "restore-from-path", bool(okp), f"{short(rc, 60)}", "" if okp else "must restore from the given path", loc(mi, rc))
        tgt = arg_of(rc, 1, "target", "item", "args")
        why = ""
        if tgt is None:
            ck.need(not [kw.arg for kw in rc.keywords if kw.arg not in ("directory", "path", "strict")], f"{q}: `{short(rc, 50)}`: options this check does not read (unrecognised form)")
            okt, tk = False, None
            why = ("untargeted restore returns nested dicts with *string* keys; nnx.merge consumes the leaves in sorted key order, so list entries beyond ten ('10' < '2') are assigned to the wrong, "
                   "equally shaped layers: the reloaded network computes a different function")
        else:
            okt, tk = _judge(q, _kinds(cfg, rat, tgt, ctx, structural=True), lambda k: k == ("full", modelp), params)
            if not okt:
                why = f"the restore target is not the complete state of the model ({_ktxt(tk)}): only part of the saved state is read back"
        ck.ob("R3-checkpoints", q, "restore-into-model-structure", okt, f"target = {short(tgt, 50) if tgt is not None else None}", why, loc(mi, rc))


def run(ck, repo: Repo, tier: str):
    nf = NF(repo, inline_depth=1, inline_calls=False)
    ck.guard(r1_buffers, ck, repo, nf)
    ck.guard(r2_pickle_helper, ck, repo, nf)
    ck.guard(r3_checkpoints, ck, repo, nf)


_F, _S = "rl_blox/blox/replay_buffer.py", "rl_blox/util/serialize.py"
_PE = "rl_blox/blox/probabilistic_ensemble.py"
_PB_END = "    def reset_max_priority(self, current_len: int):\n        \"\"\"Recalculate the maximum priority.\"\"\"\n        if current_len > 0:\n            self.max_priority = np.max(self.priority[:current_len])\n"
MUTANTS = [
    {"id": "c19-batch-not-deleted", "file": _F, "rule": "R1", "nth": 0, "find": "        d = dict(self.__dict__)\n        del d[\"Batch\"]\n        return d", "replace": "        d = dict(self.__dict__)\n        return d"},
    {"id": "c19-mask-deleted", "file": _F, "rule": "R1", "nth": 1, "find": "        d = dict(self.__dict__)\n        del d[\"Batch\"]\n        return d", "replace": "        d = dict(self.__dict__)\n        del d[\"Batch\"]\n        del d[\"mask_\"]\n        return d"},
    {"id": "c19-getstate-live-dict", "file": _F, "rule": "R1", "nth": 0, "find": "        d = dict(self.__dict__)\n        del d[\"Batch\"]", "replace": "        d = self.__dict__\n        del d[\"Batch\"]"},
    {"id": "c19-setstate-no-rebuild", "file": _F, "rule": "R1", "nth": 0, "find": "        self.__dict__.update(d)\n        self.Batch = namedtuple(\"Batch\", self.buffer)", "replace": "        self.__dict__.update(d)"},
    {"id": "c19-setstate-rebuild-first", "file": _F, "rule": "R1", "nth": 1, "find": "        self.__dict__.update(d)\n        self.Batch = namedtuple(\"Batch\", self.buffer)", "replace": "        self.Batch = namedtuple(\"Batch\", self.buffer)\n        self.__dict__.update(d)"},
    {"id": "c19-setstate-other-fields", "file": _F, "rule": "R1", "nth": 0, "find": "        self.__dict__.update(d)\n        self.Batch = namedtuple(\"Batch\", self.buffer)", "replace": "        self.__dict__.update(d)\n        self.Batch = namedtuple(\"Batch\", sorted(self.buffer))"},
    {"id": "c19-setstate-resets-cursor", "file": _F, "rule": "R1", "nth": 0, "find": "        self.__dict__.update(d)\n        self.Batch = namedtuple(\"Batch\", self.buffer)", "replace": "        self.__dict__.update(d)\n        self.Batch = namedtuple(\"Batch\", self.buffer)\n        self.insert_idx = self.current_len % self.buffer_size"},
    {"id": "c19-setstate-recomputes-max", "file": _F, "rule": "R1", "find": "    def reset_max_priority(self):\n        self.priority.reset_max_priority(self.current_len)\n\nclass PrioritizedReplayBuffer(LAP):", "replace": "    def reset_max_priority(self):\n        self.priority.reset_max_priority(self.current_len)\n\n    def __setstate__(self, d):\n        super().__setstate__(d)\n        self.reset_max_priority()\n\nclass PrioritizedReplayBuffer(LAP):"},
    {"id": "c19-getstate-truncates-at-cursor", "file": _F, "rule": "R1", "nth": 0, "find": "        d = dict(self.__dict__)\n        del d[\"Batch\"]\n        return d\n\n    def __setstate__(self, d):\n        self.__dict__.update(d)\n",
     "replace": "        d = dict(self.__dict__)\n        del d[\"Batch\"]\n        d[\"buffer\"] = OrderedDict((k, v[: self.insert_idx]) for k, v in self.buffer.items())\n        return d\n\n    def __setstate__(self, d):\n        self.__dict__.update(d)\n        self.buffer = OrderedDict((k, np.concatenate((v, np.empty((self.buffer_size - len(v),) + v.shape[1:], dtype=v.dtype)))) for k, v in self.buffer.items())\n"},
    {"id": "c19-save-graphdef", "file": _S, "rule": "R2", "find": "        pickle.dump(state, f)", "replace": "        pickle.dump(graphdef, f)"},
    {"id": "c19-save-params-only", "file": _S, "rule": "R2", "find": "    graphdef, state = nnx.split(net)", "replace": "    graphdef, state, _ = nnx.split(net, nnx.Param, ...)"},
    {"id": "c19-load-no-merge", "file": _S, "rule": "R2", "find": "            state = pickle.load(f)\n            net = nnx.merge(graphdef, state)\n\n    return net", "replace": "            state = pickle.load(f)\n            net = state\n\n    return net"},
    {"id": "c19-orbax-param-only", "file": "rl_blox/logging/checkpointer.py", "rule": "R3", "find": "        state = nnx.state(model)", "replace": "        state = nnx.state(model, nnx.Param)"},
    {"id": "c19-logger-param-only", "file": "rl_blox/logging/logger.py", "rule": "R3", "find": "        _, state = nnx.split(value)\n", "replace": "        _, state, _ = nnx.split(value, nnx.Param, ...)\n"},
    {"id": "c19-orbax-no-wait", "file": "rl_blox/logging/checkpointer.py", "rule": "R3", "find": "        self.checkpointer.save(path, state)\n        self.checkpointer.wait_until_finished()", "replace": "        self.checkpointer.save(path, state)"},
    {"id": "c19-restore-own-state", "file": _PE, "rule": "R3", "find": "    state = checkpointer.restore(path, target_state)\n    return nnx.merge(graphdef, state)", "replace": "    state = checkpointer.restore(path, target_state)\n    return nnx.merge(graphdef, target_state)"},
    {"id": "c19-restore-untargeted", "file": _PE, "rule": "R3", "find": "    state = checkpointer.restore(path, target_state)", "replace": "    state = checkpointer.restore(path)"},
    {"id": "c19-priority-buffer-lambda", "file": _F, "rule": "R1", "find": "        self.sampled_indices = np.empty(0, dtype=int)\n", "replace": "        self.sampled_indices = np.empty(0, dtype=int)\n        self.reduce = lambda p: np.max(p)\n"},
    {"id": "c19-setstate-removed", "file": _F, "rule": "R1", "nth": 0, "find": "    def __setstate__(self, d):\n        self.__dict__.update(d)\n        self.Batch = namedtuple(\"Batch\", self.buffer)\n", "replace": ""},
    {"id": "c19-load-merges-state-twice", "file": _S, "rule": "R2", "all": True, "find": "net = nnx.merge(graphdef, state)", "replace": "net = nnx.merge(state, state)"},
    {"id": "c19-save-one-branch-only", "file": _S, "rule": "R2", "find": "    with open(filename, \"wb\") as f:\n        pickle.dump(state, f)", "replace": "    if move_to_device is not None:\n        with open(filename, \"wb\") as f:\n            pickle.dump(state, f)"},
    {"id": "c19-orbax-wait-before-save", "file": "rl_blox/logging/checkpointer.py", "rule": "R3", "find": "        self.checkpointer.save(path, state)\n        self.checkpointer.wait_until_finished()", "replace": "        self.checkpointer.wait_until_finished()\n        self.checkpointer.save(path, state)"},
    {"id": "c19-restore-merges-state-as-graphdef", "file": _PE, "rule": "R3", "find": "    return nnx.merge(graphdef, state)", "replace": "    return nnx.merge(target_state, state)"},
    {"id": "c19-restore-fixed-directory", "file": _PE, "rule": "R3", "find": "    state = checkpointer.restore(path, target_state)", "replace": "    state = checkpointer.restore(\"/tmp/checkpoint\", target_state)"},
    {"id": "c19-restore-params-rest-from-template", "file": _PE, "rule": "R3", "find": "    graphdef, target_state = nnx.split(model)\n    state = checkpointer.restore(path, target_state)\n    return nnx.merge(graphdef, state)",
     "replace": "    graphdef, params, rest = nnx.split(model, nnx.Param, ...)\n    params = checkpointer.restore(path, params)\n    return nnx.merge(graphdef, params, rest)"},
    {"id": "c19-getstate-truncates-at-cursor-via-locals", "file": _F, "rule": "R1", "nth": 1, "find": "        d = dict(self.__dict__)\n        del d[\"Batch\"]\n        return d\n\n    def __setstate__(self, d):\n        self.__dict__.update(d)\n",
     "replace": "        d = dict(self.__dict__)\n        del d[\"Batch\"]\n        cursor = self.insert_idx\n        rows = cursor\n        d[\"buffer\"] = {name: column[:rows].copy() for name, column in self.buffer.items()}\n        return d\n\n    def __setstate__(self, d):\n        self.__dict__.update(d)\n        self.buffer = OrderedDict((k, np.concatenate((v, np.empty((self.buffer_size - len(v),) + v.shape[1:], dtype=v.dtype)))) for k, v in self.buffer.items())\n"},
    {"id": "c19-priority-buffer-drops-last-indices", "file": _F, "rule": "R1-pickling-symmetry", "find": _PB_END,
     "replace": _PB_END + "\n    def __getstate__(self):\n        state = self.__dict__.copy()\n        state.pop(\"sampled_indices\")\n        return state\n\n    def __setstate__(self, state):\n        vars(self).update(state)\n        self.sampled_indices = np.empty(0, dtype=int)\n"},
    {"id": "c19-priority-buffer-drops-running-max", "file": _F, "rule": "R1-pickling-symmetry", "find": _PB_END,
     "replace": _PB_END + "\n    def __getstate__(self):\n        d = {k: v for k, v in self.__dict__.items() if k != \"max_priority\"}\n        return d\n\n    def __setstate__(self, d):\n        self.__dict__.update(d)\n        self.max_priority = 1.0\n"},
    {"id": "c19-subtrajectory-drops-episode-counter", "file": _F, "rule": "R1-pickling-symmetry", "nth": 1, "find": "        d = dict(self.__dict__)\n        del d[\"Batch\"]\n        return d\n\n    def __setstate__(self, d):\n        self.__dict__.update(d)\n        self.Batch = namedtuple(\"Batch\", self.buffer)\n",
     "replace": "        d = dict(self.__dict__)\n        del d[\"Batch\"]\n        del d[\"episode_timesteps\"]\n        return d\n\n    def __setstate__(self, d):\n        self.__dict__.update(d)\n        self.Batch = namedtuple(\"Batch\", self.buffer)\n        self.episode_timesteps = 0\n"},
    {"id": "c19-priority-buffer-setstate-clears-last-indices", "file": _F, "rule": "R1-pickling-symmetry", "find": _PB_END,
     "replace": _PB_END + "\n    def __getstate__(self):\n        return dict(self.__dict__)\n\n    def __setstate__(self, d):\n        self.__dict__.update(d)\n        self.sampled_indices = np.empty(0, dtype=int)\n"},
    {"id": "c19-cursor-dropped-derived-from-fill-level", "file": _F, "rule": "R1-pickling-symmetry", "nth": 0, "find": "        d = dict(self.__dict__)\n        del d[\"Batch\"]\n        return d\n\n    def __setstate__(self, d):\n        self.__dict__.update(d)\n        self.Batch = namedtuple(\"Batch\", self.buffer)\n",
     "replace": "        d = dict(self.__dict__)\n        del d[\"Batch\"]\n        d.pop(\"insert_idx\")\n        return d\n\n    def __setstate__(self, d):\n        self.__dict__.update(d)\n        self.Batch = namedtuple(\"Batch\", self.buffer)\n        self.insert_idx = 0 if self.current_len == self.buffer_size else self.current_len\n"},
    {"id": "c19-save-conditional-expression-dumps-graphdef", "file": _S, "rule": "R2", "find": "    if move_to_device is not None:\n        state = _put_on_device(state, move_to_device)\n", "replace": "    state = graphdef if move_to_device is None else _put_on_device(state, move_to_device)\n"},
    {"id": "c19-load-conditional-return-raw-state", "file": _S, "rule": "R2", "find": "    return net\n", "replace": "    return net if move_to_device is None else state\n"},
]
BENIGN = [
    {"id": "c19-b-getstate-pop", "file": _F, "nth": 0, "find": "        d = dict(self.__dict__)\n        del d[\"Batch\"]\n        return d", "replace": "        d = dict(self.__dict__)\n        d.pop(\"Batch\")\n        return d"},
    {"id": "c19-b-getstate-copy-method", "file": _F, "nth": 1, "find": "        d = dict(self.__dict__)\n        del d[\"Batch\"]\n        return d", "replace": "        state = self.__dict__.copy()\n        del state[\"Batch\"]\n        return state"},
    {"id": "c19-b-save-state-call", "file": _S, "find": "    graphdef, state = nnx.split(net)", "replace": "    state = nnx.state(net)"},
    {"id": "c19-b-orbax-split", "file": "rl_blox/logging/checkpointer.py", "find": "        state = nnx.state(model)", "replace": "        _, state = nnx.split(model)"},
    {"id": "c19-b-getstate-dictcomp", "file": _F, "nth": 0, "find": "        d = dict(self.__dict__)\n        del d[\"Batch\"]\n        return d", "replace": "        return {k: v for k, v in self.__dict__.items() if k != \"Batch\"}"},
    {"id": "c19-b-getstate-module-constant-key-logging", "file": _F, "edits": [
        ("import copy\n", "import copy\nimport logging\n"), ("import numpy as np\n", "import numpy as np\n\n_log = logging.getLogger(__name__)\n_DERIVED = \"Batch\"\n"),
        ("        d = dict(self.__dict__)\n        del d[\"Batch\"]\n        return d\n\n    def __setstate__(self, d):\n        self.__dict__.update(d)\n        self.Batch = namedtuple(\"Batch\", self.buffer)\n\n\nclass SubtrajectoryReplayBuffer:",
         "        d = {**vars(self)}\n        d.pop(_DERIVED)\n        if _log.isEnabledFor(logging.DEBUG):\n            _log.debug(\"saving %s transitions\", d.get(\"current_len\"))\n        return d\n\n    def __setstate__(self, d):\n        self.__dict__.update(d)\n        self.Batch = namedtuple(\"Batch\", self.buffer)\n\n\nclass SubtrajectoryReplayBuffer:")]},
    {"id": "c19-b-logger-alias-ellipsis-keywords", "file": "rl_blox/logging/logger.py", "find": "        _, state = nnx.split(value)\n        self.checkpointer.save(f\"{checkpoint_path}\", state)", "replace": "        model = value\n        state = nnx.split(model, ...)[1]\n        self.checkpointer.save(directory=checkpoint_path, state=state)"},
    {"id": "c19-b-namedtuple-keywords", "file": _F, "nth": 0, "find": "        self.__dict__.update(d)\n        self.Batch = namedtuple(\"Batch\", self.buffer)", "replace": "        assert isinstance(d, dict)\n        self.__dict__ |= d\n        self.Batch = namedtuple(typename=\"Batch\", field_names=list(self.buffer.keys()), rename=False)"},
    {"id": "c19-b-setstate-logging-explicit-base", "file": _F, "edits": [
        ("import copy\n", "import copy\nimport logging\n"), ("import numpy as np\n", "import numpy as np\n\n_log = logging.getLogger(__name__)\n"),
        ("    def reset_max_priority(self):\n        self.priority.reset_max_priority(self.current_len)\n\nclass PrioritizedReplayBuffer(LAP):",
         "    def reset_max_priority(self):\n        self.priority.reset_max_priority(self.current_len)\n\n    def __setstate__(self, state):\n        ReplayBuffer.__setstate__(self, state)\n        _log.debug(\"restored %s of %s transitions\", state.get(\"current_len\"), self.buffer_size)\n\nclass PrioritizedReplayBuffer(LAP):")]},
    {"id": "c19-b-save-alias-keywords-two-dumps", "file": _S, "find": "    graphdef, state = nnx.split(net)\n\n    if move_to_device is not None:\n        state = _put_on_device(state, move_to_device)\n\n    with open(filename, \"wb\") as f:\n        pickle.dump(state, f)",
     "replace": "    module = net\n    _, state = nnx.split(module, ...)\n\n    if move_to_device is not None:\n        with open(filename, \"wb\") as f:\n            pickle.dump(obj=_put_on_device(move_to_device=move_to_device, state=state), file=f)\n    else:\n        with open(filename, \"wb\") as f:\n            pickle.dump(state, file=f)"},
    {"id": "c19-b-load-alias-graphdef", "file": _S, "all": True, "find": "                net = nnx.merge(graphdef, state)", "replace": "                gd = graphdef\n                net = nnx.merge(gd, jax.device_put(state))"},
    {"id": "c19-b-orbax-mixin-alias-wait-first", "file": "rl_blox/logging/checkpointer.py", "edits": [
        ("class OrbaxCheckpointer(LoggerBase):", "class _ModelWriter:\n    def save_model(self, path: str, model: nnx.Module):\n        writer = self.checkpointer\n        writer.wait_until_finished()\n        net = model\n        writer.save(path, state=nnx.state(net, ...))\n        writer.wait_until_finished()\n\n\nclass OrbaxCheckpointer(_ModelWriter, LoggerBase):"),
        ("    def save_model(self, path: str, model: nnx.Module):\n        \"\"\"Save model with Orbax.\n\n        Parameters\n        ----------\n        path : str\n            Full path to model.\n\n        model : nnx.Module\n            Function approximator to be stored.\n        \"\"\"\n        state = nnx.state(model)\n        self.checkpointer.save(path, state)\n        self.checkpointer.wait_until_finished()\n", "")]},
    {"id": "c19-b-restore-keywords-abstract-target", "file": _PE, "find": "    graphdef, target_state = nnx.split(model)\n    state = checkpointer.restore(path, target_state)\n    return nnx.merge(graphdef, state)",
     "replace": "    template = model\n    graphdef, target_state = nnx.split(template)\n    abstract = jax.tree.map(ocp.utils.to_shape_dtype_struct, target_state)\n    directory = path\n    state = checkpointer.restore(directory=directory, target=abstract)\n    restored = nnx.merge(graphdef, state)\n    return restored"},
    {"id": "c19-b-restore-state-call", "file": _PE, "find": "    graphdef, target_state = nnx.split(model)\n    state = checkpointer.restore(path, target_state)", "replace": "    graphdef = nnx.graphdef(model)\n    state = checkpointer.restore(path, nnx.state(model))"},
    {"id": "c19-b-getstate-storage-through-local", "file": _F, "nth": 0, "find": "        d = dict(self.__dict__)\n        del d[\"Batch\"]\n        return d", "replace": "        d = dict(self.__dict__)\n        storage = self.buffer\n        n_valid = self.current_len\n        assert n_valid <= self.buffer_size\n        d[\"buffer\"] = storage\n        del d[\"Batch\"]\n        return d"},
    {"id": "c19-b-scratch-dropped-private-helpers", "file": _F, "edits": [
        ("        self.sampled_indices = np.empty(0, dtype=int)\n", "        self.sampled_indices = np.empty(0, dtype=int)\n        self._cumsum = None\n"),
        ("        probabilities = np.cumsum(priority)\n        random_uniforms = rng.uniform(0, 1, size=batch_size) * probabilities[-1]\n        self.sampled_indices = np.searchsorted(probabilities, random_uniforms)",
         "        self._accumulate(priority)\n        self.sampled_indices = self._draw(rng, batch_size)"),
        (_PB_END, _PB_END + "\n    def _accumulate(self, priority):\n        self._cumsum = np.cumsum(priority)\n\n    def _draw(self, rng, batch_size):\n        random_uniforms = rng.uniform(0, 1, size=batch_size) * self._cumsum[-1]\n        return np.searchsorted(self._cumsum, random_uniforms)\n\n    def __getstate__(self):\n        d = dict(self.__dict__)\n        del d[\"_cumsum\"]\n        return d\n\n    def __setstate__(self, d):\n        self.__dict__.update(d)\n        self._cumsum = None\n")]},
    {"id": "c19-b-constant-dropped-and-rebuilt", "file": _F, "edits": [
        ("        self.sampled_indices = np.empty(0, dtype=int)\n", "        self.sampled_indices = np.empty(0, dtype=int)\n        self._eps = np.finfo(float).eps\n"),
        ("        random_uniforms = rng.uniform(0, 1, size=batch_size) * probabilities[-1]\n", "        random_uniforms = rng.uniform(0, 1, size=batch_size) * (probabilities[-1] + 0 * self._eps)\n"),
        (_PB_END, _PB_END + "\n    def __getstate__(self):\n        d = dict(self.__dict__)\n        del d[\"_eps\"]\n        return d\n\n    def __setstate__(self, d):\n        self.__dict__.update(d)\n        self._eps = np.finfo(float).eps\n")]},
    {"id": "c19-b-lazy-total-dropped", "file": _F, "edits": [
        ("        self.sampled_indices = np.empty(0, dtype=int)\n", "        self.sampled_indices = np.empty(0, dtype=int)\n        self._total = None\n"),
        ("        self.priority[insert_idx] = self.max_priority\n", "        self.priority[insert_idx] = self.max_priority\n        self._total = None\n"),
        (_PB_END, _PB_END + "\n    def total(self, current_len):\n        if self._total is None:\n            self._total = float(np.sum(self.priority[:current_len]))\n        return self._total\n\n    def __getstate__(self):\n        d = dict(self.__dict__)\n        del d[\"_total\"]\n        return d\n\n    def __setstate__(self, d):\n        self.__dict__.update(d)\n        self._total = None\n")]},
    {"id": "c19-b-derived-constant-dropped-and-recomputed-from-capacity", "file": _F, "edits": [
        ("        self.current_len = 0\n        self.insert_idx = 0\n\n    def add_sample(self, **sample):", "        self.current_len = 0\n        self.insert_idx = 0\n        self._last_slot = self.buffer_size - 1\n\n    def add_sample(self, **sample):"),
        ("        d = dict(self.__dict__)\n        del d[\"Batch\"]\n        return d\n\n    def __setstate__(self, d):\n        self.__dict__.update(d)\n        self.Batch = namedtuple(\"Batch\", self.buffer)\n\n\nclass SubtrajectoryReplayBuffer:", "        d = dict(self.__dict__)\n        del d[\"Batch\"]\n        del d[\"_last_slot\"]\n        return d\n\n    def __setstate__(self, d):\n        self.__dict__.update(d)\n        self.Batch = namedtuple(\"Batch\", self.buffer)\n        self._last_slot = self.buffer_size - 1\n\n\nclass SubtrajectoryReplayBuffer:")]},
    {"id": "c19-b-save-conditional-expression-inverted", "file": _S, "find": "    if move_to_device is not None:\n        state = _put_on_device(state, move_to_device)\n", "replace": "    state = _put_on_device(state, move_to_device) if move_to_device is not None else state\n"},
    {"id": "c19-b-load-conditional-return-same-module", "file": _S, "find": "    return net\n", "replace": "    return net if isinstance(net, nnx.Module) else net\n"},
]
