"""C19 - saved models and buffers reload to identical state (necessary structural conditions only)."""
from __future__ import annotations

import ast

from ..loops import dotted
from ..nf import NF, Scope, Poly
from ..repo import Repo, loc, short, AnalysisError, positional_params

EXPLANATION = (
    "Round-trip equality is a runtime property and is NOT decided. Decided are necessary conditions: (R1) pickling symmetry of every buffer "
    "class - the keys __getstate__ removes from the instance dict are exactly the attributes bound to dynamically created classes "
    "(namedtuple types, the only unpicklable kind here) and __setstate__ rebuilds each of them with the same expression as __init__ after "
    "restoring the dict, so that ring state, masks, priorities and counters travel in __dict__; subclasses add no unpicklable attribute "
    "without extending the pair. (R2) the pickle helper dumps the state half of nnx.split(net) and load merges the given graphdef with the "
    "loaded state on both device branches. (R3) both checkpoint writers save the unfiltered module state and wait for completion; "
    "restore merges the restored state with the model's own graphdef."
)
TRUSTED = ["pickle round-trips plain attributes (ints, numpy arrays, OrderedDict, PriorityBuffer objects)", "nnx.split / nnx.merge are inverse for a given graphdef", "Orbax save / restore"]
RULES = {
    "R1-pickling-symmetry": "__getstate__ deletes exactly the attributes holding dynamically created classes; __setstate__ restores __dict__ and rebuilds them with __init__'s expression",
    "R2-pickle-helper": "save_pickle dumps the state of nnx.split(net); load_pickle returns nnx.merge(graphdef, loaded state) on every branch",
    "R3-checkpoints": "checkpoint writers save the unfiltered state and wait; restore_checkpoint merges the restored state with the model's graphdef",
}

RB = "rl_blox.blox.replay_buffer."
BUFFERS = ["ReplayBuffer", "SubtrajectoryReplayBuffer", "LAP", "PrioritizedReplayBuffer", "SubtrajectoryReplayBufferPER"]


def _dynamic_class_attrs(repo, cq):
    """attributes assigned `namedtuple(...)` / `type(...)` results in __init__ along the MRO -> expression text."""
    out = {}
    for c in repo.mro(cq)[::-1]:
        m = repo.method(c, "__init__", inherited=False)
        if not m:
            continue
        for n in ast.walk(m[1]):
            if isinstance(n, ast.Assign) and isinstance(n.targets[0], ast.Attribute) and dotted(n.targets[0].value) == "self" and isinstance(n.value, ast.Call) and dotted(n.value.func) in ("namedtuple", "collections.namedtuple", "type", "dataclasses.make_dataclass"):
                out[n.targets[0].attr] = ast.unparse(n.value)
            if isinstance(n, ast.Assign) and isinstance(n.targets[0], ast.Attribute) and dotted(n.targets[0].value) == "self" and isinstance(n.value, ast.Lambda):
                out[n.targets[0].attr] = ast.unparse(n.value)
    return out


def run(ck, repo: Repo, tier: str):
    for name in BUFFERS:
        cq = RB + name
        cls = repo.cls(cq)
        mi = cls._module
        dyn = _dynamic_class_attrs(repo, cq)
        gs, ss = repo.method(cq, "__getstate__"), repo.method(cq, "__setstate__")
        site = cq
        ok = gs is not None and ss is not None
        ck.ob("R1-pickling-symmetry", site, "has-state-pair", ok or not dyn, f"dynamic-class attributes {sorted(dyn)}; __getstate__ {'from ' + gs[0].rsplit('.', 1)[1] if gs else 'missing'}",
              "" if ok or not dyn else "the class holds a dynamically created type but has no __getstate__/__setstate__: pickling fails or loses it", loc(mi, cls))
        if not ok:
            continue
        g, s = gs[1], ss[1]
        deleted = sorted(ast.literal_eval(d.targets[0].slice) for d in ast.walk(g) if isinstance(d, ast.Delete) and isinstance(d.targets[0], ast.Subscript) and isinstance(d.targets[0].slice, ast.Constant))
        popped = sorted(ast.literal_eval(c.args[0]) for c in ast.walk(g) if isinstance(c, ast.Call) and isinstance(c.func, ast.Attribute) and c.func.attr == "pop" and c.args and isinstance(c.args[0], ast.Constant))
        removed = sorted(set(deleted + popped))
        ok = removed == sorted(dyn)
        why = ""
        if not ok:
            extra, miss = sorted(set(removed) - set(dyn)), sorted(set(dyn) - set(removed))
            why = (f"`{extra}` is dropped from the pickled state but is ordinary data (it would be lost on reload)" if extra else f"`{miss}` holds a dynamically created class and is not removed: pickling fails")
        ck.ob("R1-pickling-symmetry", site, "deleted==dynamic-classes", ok, f"__getstate__ removes {removed}; dynamic-class attributes {sorted(dyn)}", why, loc(repo.cls(gs[0])._module, g))
        gtxt = [ast.unparse(x) for x in g.body if not (isinstance(x, ast.Expr) and isinstance(x.value, ast.Constant))]
        ok = gtxt[:1] == ["d = dict(self.__dict__)"] and gtxt[-1:] == ["return d"]
        ck.ob("R1-pickling-symmetry", site, "copies-dict", ok, " ; ".join(gtxt), "" if ok else "__getstate__ must work on a copy of __dict__ (the live object must keep its attributes) and return it", loc(repo.cls(gs[0])._module, g))
        stxt = [ast.unparse(x) for x in s.body if not (isinstance(x, ast.Expr) and isinstance(x.value, ast.Constant))]
        rebuilt = {}
        for x in s.body:
            if isinstance(x, ast.Assign) and isinstance(x.targets[0], ast.Attribute) and dotted(x.targets[0].value) == "self":
                rebuilt[x.targets[0].attr] = ast.unparse(x.value)
        ok = stxt[:1] == ["self.__dict__.update(d)"]
        ck.ob("R1-pickling-symmetry", site, "restores-dict-first", ok, " ; ".join(stxt), "" if ok else "__setstate__ must restore the pickled attributes before rebuilding derived ones", loc(repo.cls(ss[0])._module, s))
        ok = rebuilt == dyn
        ck.ob("R1-pickling-symmetry", site, "rebuilt==deleted", ok, f"rebuilt {rebuilt}; __init__ {dyn}", "" if ok else "every removed attribute must be rebuilt with the same expression as in __init__ (otherwise sample_batch fails or returns a different tuple type after reload)", loc(repo.cls(ss[0])._module, s))
    # classes pickled by default: no attribute of an unpicklable kind
    for name in ("PriorityBuffer", "MultiTaskReplayBuffer"):
        cq = RB + name
        dyn = _dynamic_class_attrs(repo, cq)
        ck.ob("R1-pickling-symmetry", cq, "default-pickling-ok", not dyn, f"dynamic-class / lambda attributes: {sorted(dyn)}", "" if not dyn else "a class without __getstate__ holds an unpicklable attribute", loc(repo.cls(cq)._module, repo.cls(cq)))

    # ---- R2 ------------------------------------------------------------------------------------------------
    q = "rl_blox.util.serialize.save_pickle"
    fn = repo.func(q)
    txt = [ast.unparse(x) for x in fn.body if not (isinstance(x, ast.Expr) and isinstance(x.value, ast.Constant))]
    ok = txt[0] == "graphdef, state = nnx.split(net)" and any("pickle.dump(state, f)" in t for t in txt) and any("open(filename, 'wb')" in t for t in txt)
    ck.ob("R2-pickle-helper", q, "dumps-state", ok, " ; ".join(t.replace(chr(10), ' ') for t in txt)[:160], "" if ok else "must dump the state half of nnx.split(net) to the given file", loc(fn._module, fn))
    dev = [x for x in ast.walk(fn) if isinstance(x, ast.Assign) and dotted(x.targets[0]) == "state" and isinstance(x.value, ast.Call) and dotted(x.value.func) == "_put_on_device"]
    ok = len(dev) == 1 and [dotted(a) for a in dev[0].value.args] == ["state", "move_to_device"]
    ck.ob("R2-pickle-helper", q, "device-move-preserves-state", ok, f"{[ast.unparse(x) for x in dev]}", "" if ok else "moving to a device must transform the same state object that is dumped", loc(fn._module, fn))
    q = "rl_blox.util.serialize.load_pickle"
    fn = repo.func(q)
    merges = [ast.unparse(x.value) for x in ast.walk(fn) if isinstance(x, ast.Assign) and dotted(x.targets[0]) == "net"]
    loads = [ast.unparse(x.value) for x in ast.walk(fn) if isinstance(x, ast.Assign) and dotted(x.targets[0]) == "state"]
    rets = [ast.unparse(x.value) for x in ast.walk(fn) if isinstance(x, ast.Return)]
    ok = merges == ["nnx.merge(graphdef, state)"] * 2 and loads == ["pickle.load(f)"] * 2 and rets == ["net"]
    ck.ob("R2-pickle-helper", q, "merge-on-both-branches", ok, f"state = {loads}; net = {merges}; return {rets}", "" if ok else "both device branches must load the state and merge it with the given graphdef", loc(fn._module, fn))

    # ---- R3 -------------------------------------------------------------------------------------------------
    m = repo.method("rl_blox.logging.logger.StandardLogger", "_save_checkpoint", inherited=False)
    txt = "\n".join(ast.unparse(x) for x in m[1].body)
    ok = "_, state = nnx.split(value)" in txt and "self.checkpointer.save(f'{checkpoint_path}', state)" in txt and "self.checkpointer.wait_until_finished()" in txt
    ck.ob("R3-checkpoints", "rl_blox.logging.logger.StandardLogger._save_checkpoint", "full-state-and-wait", ok, "state = nnx.split(value)[1]; save; wait", "" if ok else "must save the complete state half of nnx.split and wait for the write", loc(repo.cls("rl_blox.logging.logger.StandardLogger")._module, m[1]))
    m = repo.method("rl_blox.logging.checkpointer.OrbaxCheckpointer", "save_model", inherited=False)
    txt = [ast.unparse(x) for x in m[1].body if not (isinstance(x, ast.Expr) and isinstance(x.value, ast.Constant))]
    ok = txt == ["state = nnx.state(model)", "self.checkpointer.save(path, state)", "self.checkpointer.wait_until_finished()"]
    ck.ob("R3-checkpoints", "rl_blox.logging.checkpointer.OrbaxCheckpointer.save_model", "full-state-and-wait", ok, " ; ".join(txt), "" if ok else "must save nnx.state(model) without a filter (a Param filter drops the tanh heads' action_scale/action_bias) and wait", loc(repo.cls("rl_blox.logging.checkpointer.OrbaxCheckpointer")._module, m[1]))
    q = "rl_blox.blox.probabilistic_ensemble.restore_checkpoint"
    fn = repo.func(q)
    txt = [ast.unparse(x) for x in fn.body if not (isinstance(x, (ast.Expr, ast.Import)) )]
    ok = txt == ["checkpointer = ocp.PyTreeCheckpointer()", "state = checkpointer.restore(path)", "graphdef, _ = nnx.split(model)", "return nnx.merge(graphdef, state)"]
    ck.ob("R3-checkpoints", q, "restore-and-merge", ok, " ; ".join(txt), "" if ok else "must restore the state from `path` and merge it with the given model's graphdef", loc(fn._module, fn))


_F, _S = "rl_blox/blox/replay_buffer.py", "rl_blox/util/serialize.py"
MUTANTS = [
    {"id": "c19-batch-not-deleted", "file": _F, "rule": "R1", "nth": 0, "find": "        d = dict(self.__dict__)\n        del d[\"Batch\"]\n        return d", "replace": "        d = dict(self.__dict__)\n        return d"},
    {"id": "c19-mask-deleted", "file": _F, "rule": "R1", "nth": 1, "find": "        d = dict(self.__dict__)\n        del d[\"Batch\"]\n        return d", "replace": "        d = dict(self.__dict__)\n        del d[\"Batch\"]\n        del d[\"mask_\"]\n        return d"},
    {"id": "c19-getstate-live-dict", "file": _F, "rule": "R1", "nth": 0, "find": "        d = dict(self.__dict__)\n        del d[\"Batch\"]", "replace": "        d = self.__dict__\n        del d[\"Batch\"]"},
    {"id": "c19-setstate-no-rebuild", "file": _F, "rule": "R1", "nth": 0, "find": "        self.__dict__.update(d)\n        self.Batch = namedtuple(\"Batch\", self.buffer)", "replace": "        self.__dict__.update(d)"},
    {"id": "c19-setstate-rebuild-first", "file": _F, "rule": "R1", "nth": 1, "find": "        self.__dict__.update(d)\n        self.Batch = namedtuple(\"Batch\", self.buffer)", "replace": "        self.Batch = namedtuple(\"Batch\", d[\"buffer\"])\n        self.__dict__.update(d)"},
    {"id": "c19-setstate-other-fields", "file": _F, "rule": "R1", "nth": 0, "find": "        self.__dict__.update(d)\n        self.Batch = namedtuple(\"Batch\", self.buffer)", "replace": "        self.__dict__.update(d)\n        self.Batch = namedtuple(\"Batch\", sorted(self.buffer))"},
    {"id": "c19-save-graphdef", "file": _S, "rule": "R2", "find": "        pickle.dump(state, f)", "replace": "        pickle.dump(graphdef, f)"},
    {"id": "c19-load-no-merge", "file": _S, "rule": "R2", "find": "            state = pickle.load(f)\n            net = nnx.merge(graphdef, state)\n\n    return net", "replace": "            state = pickle.load(f)\n            net = state\n\n    return net"},
    {"id": "c19-orbax-param-only", "file": "rl_blox/logging/checkpointer.py", "rule": "R3", "find": "        state = nnx.state(model)", "replace": "        state = nnx.state(model, nnx.Param)"},
    {"id": "c19-restore-own-state", "file": "rl_blox/blox/probabilistic_ensemble.py", "rule": "R3", "find": "    graphdef, _ = nnx.split(model)\n    return nnx.merge(graphdef, state)", "replace": "    graphdef, own = nnx.split(model)\n    return nnx.merge(graphdef, own)"},
]
BENIGN = [
    {"id": "c19-b-getstate-pop", "file": _F, "nth": 0, "find": "        d = dict(self.__dict__)\n        del d[\"Batch\"]\n        return d", "replace": "        d = dict(self.__dict__)\n        d.pop(\"Batch\")\n        return d"},
]
