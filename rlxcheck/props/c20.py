"""C20 - loggers record faithfully and checkpoint at interval crossings (structural part)."""
from __future__ import annotations

import ast

from ..cfg import CFG
from ..loops import dotted
from ..nf import NF, Scope, Poly, parse_expr
from ..repo import Repo, loc, short, AnalysisError, positional_params, param_names
from ..sympath import enumerate_paths, PathEval

EXPLANATION = (
    "Fan-out completeness: LoggerList overrides every public method of LoggerBase and each override is a loop over self.loggers that calls "
    "the same-named method with every parameter of its own signature in the callee's positional order. Record / get agreement: on every "
    "path (enumerated) record_stat of the in-memory and standard loggers appends exactly once to stats[key] and once to stats_loc[key] the "
    "tuple (episode, step, t) with the documented defaults, in the order of the X_KEYS table get_stat indexes. Counter ownership: "
    "_n_episodes / n_steps are written only by start_new_episode / stop_episode in all loggers. Checkpoint listing: the path is appended "
    "only after save and wait_until_finished on the same path (dominance). Cadence state: the Orbax logger updates last_step[key] on every "
    "path after evaluating the guard, saves at most once per record_epoch, and its guard is the documented wrap-or-gap predicate; the "
    "standard logger increments epoch[key] exactly once before testing epoch % interval == 0. The arithmetic equivalence of the wrap-or-gap "
    "predicate with `a multiple of the interval was passed` is NOT decided (hand argument in DESIGN.md)."
)
TRUSTED = ["Orbax StandardCheckpointer.save / wait_until_finished", "list.append preserves recording order"]
RULES = {
    "R1-fan-out": "LoggerList overrides every LoggerBase method; each override forwards all its parameters, in order, to the same method of every member",
    "R2-record-get": "record_stat appends value and (episode, step, t) exactly once per call on every path; defaults episode <- _n_episodes, step <- n_steps; tuple order == X_KEYS of get_stat",
    "R3-counters": "_n_episodes is written only by start_new_episode (+= 1), n_steps only by stop_episode (+= total_steps)",
    "R4-save-before-list": "checkpoint_path[key].append(p) is dominated by save(p, state) and wait_until_finished(); the state saved is unfiltered",
    "R5-cadence": "Orbax: guard == (last % f > step % f) or (step - last >= f); last_step[key] = step on every path after the guard; one save per record; Standard: epoch[key] += 1 once, then epoch[key] % f == 0",
}

LG = "rl_blox.logging.logger."
OC = "rl_blox.logging.checkpointer.OrbaxCheckpointer"


def _m(repo, cq, name):
    m = repo.method(cq, name, inherited=False)
    if m is None:
        return None
    fn = m[1]
    fn._module = repo.cls(cq)._module
    return fn


def _public_methods(cls):
    return [n for n in cls.body if isinstance(n, ast.FunctionDef) and not n.name.startswith("_")]


def run(ck, repo: Repo, tier: str):
    nf = NF(repo, inline_depth=1, inline_calls=False)
    base = repo.cls(LG + "LoggerBase")
    ll = repo.cls(LG + "LoggerList")
    mi = ll._module
    base_methods = {m.name: m for m in _public_methods(base)}
    ck.floor("logger-interface-methods", len(base_methods), 7)
    # ---- R1 ------------------------------------------------------------------------------------------------
    for name, bm in sorted(base_methods.items()):
        fn = _m(repo, LG + "LoggerList", name)
        site = f"{LG}LoggerList.{name}"
        if fn is None:
            ck.ob("R1-fan-out", site, "overridden", False, f"LoggerBase.{name}", "LoggerList does not forward this interface method: members never receive it", loc(mi, ll))
            continue
        is_prop = any(dotted(d) == "property" for d in fn.decorator_list)
        if is_prop:
            rets = [n for n in ast.walk(fn) if isinstance(n, ast.Return)]
            ok = len(rets) == 1 and ast.unparse(rets[0].value) == f"self.loggers[0].{name}"
            ck.ob("R1-fan-out", site, "property-of-first-member", ok, f"return {ast.unparse(rets[0].value) if rets else None}", "" if ok else "must report the (identical) value of a member", loc(mi, fn))
            continue
        params = [p for p in positional_params(fn) if p != "self"]
        bparams = [p for p in positional_params(bm) if p != "self"]
        ok = params == bparams
        ck.ob("R1-fan-out", site, "signature", ok, f"({', '.join(params)})", "" if ok else f"signature differs from LoggerBase.{name}({', '.join(bparams)})", loc(mi, fn))
        loops = [n for n in fn.body if isinstance(n, ast.For)]
        others = [n for n in fn.body if not isinstance(n, ast.For) and not (isinstance(n, ast.Expr) and isinstance(n.value, ast.Constant))]
        ok = len(loops) == 1 and not others and ast.unparse(loops[0].iter) == "self.loggers" and isinstance(loops[0].target, ast.Name) and len(loops[0].body) == 1
        ck.ob("R1-fan-out", site, "loop-over-all-members", ok, f"for {ast.unparse(loops[0].target) if loops else '?'} in {ast.unparse(loops[0].iter) if loops else '?'}", "" if ok else "must be a single loop over self.loggers (every member, nothing skipped)", loc(mi, fn))
        if not ok:
            continue
        st = loops[0].body[0]
        c = st.value if isinstance(st, ast.Expr) and isinstance(st.value, ast.Call) else None
        okc = c is not None and dotted(c.func) == f"{loops[0].target.id}.{name}"
        args = [dotted(a) for a in c.args] + [f"{k.arg}={dotted(k.value)}" for k in c.keywords] if c is not None else []
        kwok = c is not None and all(k.arg == dotted(k.value) for k in c.keywords)
        forwarded = [dotted(a) for a in c.args] + [k.arg for k in c.keywords] if c is not None else []
        okf = okc and kwok and forwarded == params if c is not None and not c.keywords else (okc and kwok and [dotted(a) for a in c.args] == params[:len(c.args)] and sorted(forwarded) == sorted(params))
        ck.ob("R1-fan-out", site, "forwards-all-arguments", bool(okf), f"{dotted(c.func) if c is not None else None}({', '.join(args)})",
              "" if okf else f"every member must receive the identical record: all of ({', '.join(params)}) in the callee's order", loc(mi, st))

    # ---- R2 ----------------------------------------------------------------------------------------------------
    for cq in (LG + "MemoryLogger", LG + "StandardLogger"):
        fn = _m(repo, cq, "record_stat")
        ck.need(fn is not None, f"{cq}.record_stat not found")
        cfg = nf.cfg_of(fn)
        env = {p: Poly.atom(p, {p}, {p}) for p in positional_params(fn)}
        paths = enumerate_paths(cfg, cfg.entry, {cfg.exit})
        site = f"{cq}.record_stat"
        bad = 0
        forms = set()
        for p in paths:
            pe = PathEval(nf, cfg, fn._module, site, env).run(p)
            loc_apps, val_apps = [], []
            for (nid, t, v) in pe.log:
                a = cfg.nodes[nid].ast
                if t != "<expr>" or not (isinstance(a, ast.Expr) and isinstance(a.value, ast.Call) and isinstance(a.value.func, ast.Attribute) and a.value.func.attr == "append"):
                    continue
                recv = ast.unparse(a.value.func.value)
                m = nf.meta.get(v.single_atom() or "", {})
                arg = m["args"][0].canon() if m.get("args") else "?"
                if recv == "self.stats_loc[key]":
                    loc_apps.append(f"self.stats_loc[key].append({arg})")
                elif recv == "self.stats[key]":
                    val_apps.append(f"self.stats[key].append({arg})")
            apps = loc_apps + val_apps
            if len(loc_apps) != 1 or len(val_apps) != 1 or val_apps[0] != "self.stats[key].append(value)":
                bad += 1
                forms.add(str(apps)[:120])
                continue
            forms.add(loc_apps[0])
        ok = bad == 0
        ck.ob("R2-record-get", site, "appends-once-per-path", ok, f"{len(paths)} paths, {bad} without exactly one stats / stats_loc append", "" if ok else f"some path records nothing or twice: {sorted(forms)[:2]}", loc(fn._module, fn))
        # location tuple on each path: (episode|_n_episodes, step|n_steps, t|time)
        okt = True
        for f in forms:
            if not f.startswith("self.stats_loc[key].append(("):
                continue
            inner = f[len("self.stats_loc[key].append(("):-2]
            parts = _split_top(inner)
            if len(parts) != 3 or parts[0] not in ("episode", "self._n_episodes") or parts[1] not in ("step", "self.n_steps") or not (parts[2] == "t" or parts[2].startswith("-self.start_time + ") or "time()" in parts[2]):
                okt = False
        ck.ob("R2-record-get", site, "location-tuple", okt and ok, f"{sorted(forms)[:3]}", "" if okt else "the location must be (episode or _n_episodes, step or n_steps, t or elapsed time) in this order", loc(fn._module, fn))
        # defaults guarded by `is None`
        txt = "\n".join(ast.unparse(s) for s in fn.body)
        okd = "if episode is None:\n    episode = self._n_episodes" in txt and "if step is None:\n    step = self.n_steps" in txt
        ck.ob("R2-record-get", site, "defaults", okd, "episode <- _n_episodes, step <- n_steps when omitted", "" if okd else "omitted episode / step must default to the logger's current counters", loc(fn._module, fn))
        g = _m(repo, cq, "get_stat")
        gt = "\n".join(ast.unparse(s) for s in g.body)
        okg = "X_KEYS = ['episode', 'step', 'time']" in gt and "x_idx = X_KEYS.index(x_key)" in gt and "x = np.asarray(list(map(lambda x: x[x_idx], self.stats_loc[key])))" in gt and "y = np.asarray(self.stats[key])" in gt
        ck.ob("R2-record-get", f"{cq}.get_stat", "key-table-matches-tuple-order", okg, "X_KEYS = [episode, step, time] indexes the recorded (episode, step, t)", "" if okg else "get_stat must index the location tuple in the order it was recorded and return values in recording order", loc(g._module, g))

    # ---- R3 ------------------------------------------------------------------------------------------------------
    loggers = [LG + x for x in ("StandardLogger", "MemoryLogger", "StdoutLogger", "AIMLogger")] + [OC]
    for cq in loggers:
        cls = repo.cls(cq)
        for meth in cls.body:
            if not isinstance(meth, ast.FunctionDef):
                continue
            for n in ast.walk(meth):
                if isinstance(n, (ast.Assign, ast.AugAssign)):
                    t = n.targets[0] if isinstance(n, ast.Assign) else n.target
                    d = dotted(t)
                    if d == "self._n_episodes":
                        ok = (meth.name == "__init__" and ast.unparse(n) == "self._n_episodes = 0") or (meth.name == "start_new_episode" and ast.unparse(n) == "self._n_episodes += 1")
                        ck.ob("R3-counters", f"{cq}.{meth.name}", "writes:_n_episodes", ok, ast.unparse(n), "" if ok else "the episode counter may only be advanced by one in start_new_episode", loc(cls._module, n))
                    elif d == "self.n_steps":
                        ok = (meth.name == "__init__" and ast.unparse(n) == "self.n_steps = 0") or (meth.name == "stop_episode" and ast.unparse(n) == "self.n_steps += total_steps")
                        ck.ob("R3-counters", f"{cq}.{meth.name}", "writes:n_steps", ok, ast.unparse(n), "" if ok else "the step counter may only be advanced by total_steps in stop_episode", loc(cls._module, n))
        for meth, stmt in (("start_new_episode", "self._n_episodes += 1"), ("stop_episode", "self.n_steps += total_steps")):
            fn = _m(repo, cq, meth)
            ck.need(fn is not None, f"{cq}.{meth} not found")
            body = [ast.unparse(s) for s in fn.body if not (isinstance(s, ast.Expr) and isinstance(s.value, ast.Constant))]
            ok = body[:1] == [stmt] and body.count(stmt) == 1
            ck.ob("R3-counters", f"{cq}.{meth}", "advances-counter", ok, " ; ".join(body)[:100], "" if ok else f"must perform `{stmt}` exactly once", loc(fn._module, fn))

    # ---- R4 --------------------------------------------------------------------------------------------------------
    fn = _m(repo, LG + "StandardLogger", "_save_checkpoint")
    cfg = nf.cfg_of(fn)
    def find(pred):
        return [n for n in cfg.nodes if n.ast is not None and n.kind == "stmt" and pred(ast.unparse(n.ast))]
    save = find(lambda t: t.startswith("self.checkpointer.save("))
    wait = find(lambda t: t == "self.checkpointer.wait_until_finished()")
    app = find(lambda t: t.startswith("self.checkpoint_path[key].append("))
    ok = len(save) == 1 and len(wait) == 1 and len(app) == 1 and cfg.dominates(save[0].id, wait[0].id) and cfg.dominates(wait[0].id, app[0].id)
    ck.ob("R4-save-before-list", LG + "StandardLogger._save_checkpoint", "save-wait-append", ok, " -> ".join(ast.unparse(n.ast)[:50] for n in save + wait + app), "" if ok else "a path may be listed only after it was saved and the write finished", loc(fn._module, fn))
    if ok:
        sc = Scope(cfg, fn._module, {}, "s")
        p_save = nf.poly(save[0].ast.value.args[0], sc, save[0].id).canon()
        p_app = nf.poly(app[0].ast.value.args[0], sc, app[0].id).canon()
        ck.ob("R4-save-before-list", LG + "StandardLogger._save_checkpoint", "same-path", p_save == p_app, f"saved {p_save[:60]} ; listed {p_app[:60]}", "" if p_save == p_app else "the listed path is not the one that was written", loc(fn._module, fn))
        st = nf.poly(save[0].ast.value.args[1], sc, save[0].id).canon()
        ck.ob("R4-save-before-list", LG + "StandardLogger._save_checkpoint", "unfiltered-state", st == "split(value)[1]", f"state = {st}", "" if st == "split(value)[1]" else "the full module state must be saved (a Param-only filter drops action_scale / action_bias)", loc(fn._module, fn))
    fn = _m(repo, OC, "_save_checkpoint")
    cfg = nf.cfg_of(fn)
    save = [n for n in cfg.nodes if n.ast is not None and n.kind == "stmt" and ast.unparse(n.ast).startswith("self.save_model(")]
    app = [n for n in cfg.nodes if n.ast is not None and n.kind == "stmt" and ast.unparse(n.ast).startswith("self.checkpoint_path[key].append(")]
    ok = len(save) == 1 and len(app) == 1 and cfg.dominates(save[0].id, app[0].id) and ast.unparse(save[0].ast.value.args[0]) == ast.unparse(app[0].ast.value.args[0]) == "checkpoint_path"
    ck.ob("R4-save-before-list", OC + "._save_checkpoint", "save-then-append", ok, " -> ".join(ast.unparse(n.ast)[:50] for n in save + app), "" if ok else "the path must be saved (same variable) before it is listed", loc(fn._module, fn))
    fn = _m(repo, OC, "save_model")
    body = [ast.unparse(s) for s in fn.body if not (isinstance(s, ast.Expr) and isinstance(s.value, ast.Constant))]
    ok = body == ["state = nnx.state(model)", "self.checkpointer.save(path, state)", "self.checkpointer.wait_until_finished()"]
    ck.ob("R4-save-before-list", OC + ".save_model", "save-unfiltered-and-wait", ok, " ; ".join(body), "" if ok else "must save nnx.state(model) (unfiltered) to `path` and wait for completion", loc(fn._module, fn))

    # ---- R5 ------------------------------------------------------------------------------------------------------------
    fn = _m(repo, OC, "record_epoch")
    cfg = nf.cfg_of(fn)
    guards = [n for n in cfg.nodes if n.kind == "test" and "self.last_step[key]" in ast.unparse(n.ast.test)]
    ck.need(len(guards) == 1, f"{OC}.record_epoch: cadence guard not found")
    g = guards[0]
    sc = Scope(None, fn._module, {}, "g")
    got = nf.poly(g.ast.test, sc, None).canon()
    want = nf.poly(parse_expr("(self.last_step[key] % self.checkpoint_frequencies[key] > step % self.checkpoint_frequencies[key]) or (step - self.last_step[key] >= self.checkpoint_frequencies[key])"), sc, None).canon()
    ck.ob("R5-cadence", OC + ".record_epoch", "wrap-or-gap-predicate", got == want, f"if {got[:150]}", "" if got == want else f"documented predicate: {want}", loc(fn._module, g.ast))
    outer = [t for b, lab in cfg.control_deps(g.id) for t, v in cfg._lits(cfg.nodes[b].ast.test, lab, b) if v]
    ok = outer == ["key in self.checkpoint_frequencies"]
    ck.ob("R5-cadence", OC + ".record_epoch", "only-registered-keys", ok, f"guard evaluated under {outer}", "" if ok else "only keys with a configured interval are checkpointed", loc(fn._module, g.ast))
    saves = [n for n in cfg.nodes if n.ast is not None and n.kind == "stmt" and ast.unparse(n.ast) == "self._save_checkpoint(key, value, step)"]
    ok = len(saves) == 1 and (g.id, True) in cfg.control_deps(saves[0].id)
    ck.ob("R5-cadence", OC + ".record_epoch", "one-save-per-record", ok, f"{len(saves)} save call(s) under the guard", "" if ok else "exactly one checkpoint is written when the guard holds", loc(fn._module, fn))
    upd = [n for n in cfg.nodes if n.kind == "stmt" and isinstance(n.ast, ast.Assign) and ast.unparse(n.ast.targets[0]) == "self.last_step[key]"]
    ok = len(upd) == 1 and ast.unparse(upd[0].ast.value) == "step" and not cfg.control_deps(upd[0].id) and cfg.paths_avoiding(upd[0].id, g.id, set()) is None
    ck.ob("R5-cadence", OC + ".record_epoch", "last-step-updated-after-guard", ok, f"{[ast.unparse(n.ast) for n in upd]}", "" if ok else "last_step[key] must be set to step on every path, after the guard read the previous value", loc(fn._module, fn))
    # step default before use
    dflt = [n for n in cfg.nodes if n.kind == "stmt" and isinstance(n.ast, ast.Assign) and ast.unparse(n.ast) == "step = self.n_steps"]
    ok = len(dflt) == 1 and cfg.paths_avoiding(g.id, dflt[0].id, set()) is None
    ck.ob("R5-cadence", OC + ".record_epoch", "step-default-before-guard", ok, "step = self.n_steps when omitted, before the guard", "" if ok else "the implicit step must be resolved before the cadence test", loc(fn._module, fn))
    fn2 = _m(repo, OC, "define_checkpoint_frequency")
    txt = "\n".join(ast.unparse(s) for s in fn2.body)
    ok = "self.checkpoint_frequencies[key] = checkpoint_interval" in txt and "self.checkpoint_path[key] = []" in txt and "self.last_step[key] = 0" in txt
    ck.ob("R5-cadence", OC + ".define_checkpoint_frequency", "initial-state", ok, "interval stored, path list empty, last_step = 0", "" if ok else "registration must initialise interval, path list and last step", loc(fn2._module, fn2))
    # StandardLogger
    fn = _m(repo, LG + "StandardLogger", "record_epoch")
    cfg = nf.cfg_of(fn)
    incs = [n for n in cfg.nodes if n.kind == "stmt" and isinstance(n.ast, ast.AugAssign) and ast.unparse(n.ast.target) == "self.epoch[key]"]
    tests = [n for n in cfg.nodes if n.kind == "test" and "self.checkpoint_frequencies[key]" in ast.unparse(n.ast.test)]
    ok = len(incs) == 1 and ast.unparse(incs[0].ast) == "self.epoch[key] += 1" and not cfg.control_deps(incs[0].id) and len(tests) == 1 and cfg.dominates(incs[0].id, tests[0].id)
    ck.ob("R5-cadence", LG + "StandardLogger.record_epoch", "count-then-test", ok, f"{[ast.unparse(n.ast) for n in incs]} before the interval test", "" if ok else "every recorded epoch increments the counter exactly once before the interval test", loc(fn._module, fn))
    if tests:
        tt = " ".join(ast.unparse(tests[0].ast.test).split())
        ok = tt == "key in self.checkpoint_frequencies and self.epoch[key] % self.checkpoint_frequencies[key] == 0"
        ck.ob("R5-cadence", LG + "StandardLogger.record_epoch", "every-interval-th-epoch", ok, f"if {tt}", "" if ok else "must checkpoint on every interval-th recorded epoch of a registered key", loc(fn._module, tests[0].ast))
        saves = [n for n in cfg.nodes if n.ast is not None and n.kind == "stmt" and ast.unparse(n.ast) == "self._save_checkpoint(key, value)"]
        ok = len(saves) == 1 and (tests[0].id, True) in cfg.control_deps(saves[0].id)
        ck.ob("R5-cadence", LG + "StandardLogger.record_epoch", "one-save-per-record", ok, f"{len(saves)} save call(s)", "" if ok else "exactly one checkpoint when the test holds", loc(fn._module, fn))


def _split_top(s):
    out, depth, cur = [], 0, ""
    for ch in s:
        if ch in "([{":
            depth += 1
        elif ch in ")]}":
            depth -= 1
        if ch == "," and depth == 0:
            out.append(cur.strip())
            cur = ""
        else:
            cur += ch
    if cur.strip():
        out.append(cur.strip())
    return out


_L, _C = "rl_blox/logging/logger.py", "rl_blox/logging/checkpointer.py"
MUTANTS = [
    {"id": "c20-list-drops-step", "file": _L, "rule": "R1", "find": "                key, value, episode, step, t, verbose, format_str\n", "replace": "                key, value, episode, None, t, verbose, format_str\n"},
    {"id": "c20-list-swaps-episode-step", "file": _L, "rule": "R1", "find": "                key, value, episode, step, t, verbose, format_str\n", "replace": "                key, value, step, episode, t, verbose, format_str\n"},
    {"id": "c20-list-first-only", "file": _L, "rule": "R1", "find": "        for logger in self.loggers:\n            logger.record_epoch(key, value, episode, step, t)", "replace": "        for logger in self.loggers[:1]:\n            logger.record_epoch(key, value, episode, step, t)"},
    {"id": "c20-list-no-stop", "file": _L, "rule": "R1", "find": "        for logger in self.loggers:\n            logger.stop_episode(total_steps)", "replace": "        for logger in self.loggers:\n            logger.stop_episode(0)"},
    {"id": "c20-memory-tuple-order", "file": _L, "rule": "R2", "nth": 1, "find": "        self.stats_loc[key].append((episode, step, t))", "replace": "        self.stats_loc[key].append((step, episode, t))"},
    {"id": "c20-standard-skip-when-quiet", "file": _L, "rule": "R2", "nth": 0, "find": "        self.stats_loc[key].append((episode, step, t))\n        self.stats[key].append(value)\n        verbose = self.verbose if verbose is None else verbose", "replace": "        verbose = self.verbose if verbose is None else verbose\n        if verbose or key != \"episode_length\":\n            self.stats_loc[key].append((episode, step, t))\n        self.stats[key].append(value)"},
    {"id": "c20-memory-default-step", "file": _L, "rule": "R2", "nth": 1, "find": "        if step is None:\n            step = self.n_steps\n        if t is None:\n            t = time.time() - self.start_time\n        self.stats_loc[key].append((episode, step, t))\n        self.stats[key].append(value)\n\n    def get_stat", "replace": "        if step is None:\n            step = self._n_episodes\n        if t is None:\n            t = time.time() - self.start_time\n        self.stats_loc[key].append((episode, step, t))\n        self.stats[key].append(value)\n\n    def get_stat"},
    {"id": "c20-get-stat-keys", "file": _L, "rule": "R2", "nth": 0, "find": "        X_KEYS = [\"episode\", \"step\", \"time\"]", "replace": "        X_KEYS = [\"step\", \"episode\", \"time\"]"},
    {"id": "c20-counter-in-record", "file": _L, "rule": "R3", "nth": 0, "find": "        if episode is None:\n            episode = self._n_episodes\n        if step is None:\n            step = self.n_steps\n        if t is None:\n            t = time.time() - self.start_time\n        self.stats_loc[key].append((episode, step, t))", "replace": "        if episode is None:\n            episode = self._n_episodes\n        if step is None:\n            self.n_steps += 1\n            step = self.n_steps\n        if t is None:\n            t = time.time() - self.start_time\n        self.stats_loc[key].append((episode, step, t))"},
    {"id": "c20-stop-episode-plus-one", "file": _L, "rule": "R3", "nth": 0, "find": "        self.n_steps += total_steps\n        self.record_stat(\"episode_length\", total_steps, verbose=0)", "replace": "        self.n_steps += total_steps + 1\n        self.record_stat(\"episode_length\", total_steps, verbose=0)"},
    {"id": "c20-append-before-wait", "file": _L, "rule": "R4", "find": "        self.checkpointer.save(f\"{checkpoint_path}\", state)\n        self.checkpointer.wait_until_finished()\n        self.checkpoint_path[key].append(checkpoint_path)", "replace": "        self.checkpoint_path[key].append(checkpoint_path)\n        self.checkpointer.save(f\"{checkpoint_path}\", state)\n        self.checkpointer.wait_until_finished()"},
    {"id": "c20-orbax-no-wait", "file": _C, "rule": "R4", "find": "        self.checkpointer.save(path, state)\n        self.checkpointer.wait_until_finished()", "replace": "        self.checkpointer.save(path, state)"},
    {"id": "c20-orbax-param-filter", "file": _C, "rule": "R4", "find": "        state = nnx.state(model)", "replace": "        state = nnx.state(model, nnx.Param)"},
    {"id": "c20-orbax-last-step-before-guard", "file": _C, "rule": "R5", "find": "        if key in self.checkpoint_frequencies:\n            # check", "replace": "        self.last_step[key] = step\n        if key in self.checkpoint_frequencies:\n            # check"},
    {"id": "c20-orbax-last-step-only-on-save", "file": _C, "rule": "R5", "find": "                self._save_checkpoint(key, value, step)\n\n        self.last_step[key] = step", "replace": "                self._save_checkpoint(key, value, step)\n                self.last_step[key] = step"},
    {"id": "c20-orbax-gap-gt", "file": _C, "rule": "R5", "find": "                (step - self.last_step[key]) >= self.checkpoint_frequencies[key]", "replace": "                (step - self.last_step[key]) > self.checkpoint_frequencies[key]"},
    {"id": "c20-orbax-wrap-ge", "file": _C, "rule": "R5", "find": "                > step % self.checkpoint_frequencies[key]", "replace": "                >= step % self.checkpoint_frequencies[key]"},
    {"id": "c20-standard-test-before-inc", "file": _L, "rule": "R5", "find": "        self.epoch_loc[key].append((episode, step, t))\n        self.epoch[key] += 1\n", "replace": "        self.epoch_loc[key].append((episode, step, t))\n"},
]
BENIGN = [
    {"id": "c20-b-list-kwargs", "file": _L, "find": "            logger.record_epoch(key, value, episode, step, t)", "replace": "            logger.record_epoch(key, value, episode=episode, step=step, t=t)"},
    {"id": "c20-b-standard-order", "file": _L, "nth": 0, "find": "        self.stats_loc[key].append((episode, step, t))\n        self.stats[key].append(value)", "replace": "        self.stats[key].append(value)\n        self.stats_loc[key].append((episode, step, t))"},
]
