"""C20 - loggers record faithfully and checkpoint at interval crossings (structural part)."""
from __future__ import annotations

import ast

from ..cfg import CFG
from ..loops import dotted
from ..nf import NF, Scope, Poly, parse_expr
from ..repo import Repo, loc, short, AnalysisError, positional_params, param_names, bind_call
from ..sem import stmt_calls, on_every_path_once
from ..sympath import enumerate_paths, PathEval

EXPLANATION = (
    "Fan-out completeness: LoggerList overrides every public method of LoggerBase and each override is a loop over self.loggers that calls "
    "the same-named method with every parameter of its own signature in the callee's positional order. Record / get agreement: on every "
    "path (enumerated) record_stat of the in-memory and standard loggers appends exactly once to stats[key] and once to stats_loc[key] the "
    "tuple (episode, step, t) with the documented defaults, in the order of the X_KEYS table get_stat indexes. Counter ownership: "
    "_n_episodes / n_steps are written only by start_new_episode / stop_episode in all loggers. Checkpoint listing: the path is appended "
    "only after save and wait_until_finished on the same path (dominance). Cadence state: the Orbax logger updates last_step[key] on every "
    "path after evaluating the guard, saves at most once per record_epoch, and its guard is the documented wrap-or-gap predicate; the "
    "standard logger increments epoch[key] exactly once before testing epoch % interval == 0. The arithmetic equivalence of the wrap-or-gap "
    "predicate with `a multiple of the interval was passed` is NOT decided (hand argument in DESIGN.md)."
)
TRUSTED = ["Orbax StandardCheckpointer.save / wait_until_finished", "list.append preserves recording order"]
RULES = {
    "R1-fan-out": "LoggerList overrides every LoggerBase method; each override forwards all its parameters, in order, to the same method of every member",
    "R2-record-get": "record_stat appends value and (episode, step, t) exactly once per call on every path; defaults episode <- _n_episodes, step <- n_steps; tuple order == X_KEYS of get_stat",
    "R3-counters": "_n_episodes is written only by start_new_episode (+= 1), n_steps only by stop_episode (+= total_steps)",
    "R4-save-before-list": "checkpoint_path[key].append(p) is dominated by save(p, state) and wait_until_finished(); the state saved is unfiltered",
    "R5-cadence": "Orbax: guard == (last % f > step % f) or (step - last >= f); last_step[key] = step on every path after the guard; one save per record; Standard: epoch[key] += 1 once, then epoch[key] % f == 0",
}

LG = "rl_blox.logging.logger."
OC = "rl_blox.logging.checkpointer.OrbaxCheckpointer"


def _m(repo, cq, name):
    m = repo.method(cq, name, inherited=False)
    if m is None:
        return None
    fn = m[1]
    fn._module = repo.cls(cq)._module
    return fn


def _mi(repo, cq, name):
    """The method as the class has it (own or inherited from a repository base class); undecided when it does not exist."""
    m = repo.method(cq, name)
    if m is None:
        raise AnalysisError(f"{cq}.{name} not found (anchor vanished)")
    fn = m[1]
    fn._module = repo.cls(m[0])._module
    return fn


def _public_methods(cls):
    return [n for n in cls.body if isinstance(n, ast.FunctionDef) and not n.name.startswith("_")]


def _paths_lits(nf, cfg, mi, site, env, stops=None, max_paths=4000):
    """[(PathEval after the path, canonical literals of the branches taken)] for every entry -> stop path."""
    from ..sem import _negate, _flatten_and
    out = []
    try:
        paths = enumerate_paths(cfg, cfg.entry, stops or {cfg.exit}, max_paths=max_paths)
    except RuntimeError:
        raise AnalysisError(f"{site}: too many paths for the per-path evaluation")
    for pth in paths:
        pe = PathEval(nf, cfg, mi, site, env)
        lits = []
        for nid, lab in pth[:-1]:
            nd = cfg.nodes[nid]
            if nd.kind == "test" and lab in (True, False) and hasattr(nd.ast, "test") and isinstance(nd.ast, ast.If):
                c = pe.ev(nd.ast.test).canon()
                lits += _flatten_and(c) if lab else [_negate(c)]
            pe.step(nid, lab)
        out.append((pe, lits, pth))
    return out


def _fan_out(ck, repo, nf):
    base = repo.cls(LG + "LoggerBase")
    ll = repo.cls(LG + "LoggerList")
    mi = ll._module
    base_methods = {m.name: m for m in _public_methods(base)}
    ck.floor("logger-interface-methods", len(base_methods), 7)
    for name, bm in sorted(base_methods.items()):
        fn = _m(repo, LG + "LoggerList", name)
        site = f"{LG}LoggerList.{name}"
        if fn is None:
            ck.ob("R1-fan-out", site, "overridden", False, f"LoggerBase.{name}", "LoggerList does not forward this interface method: members never receive it", loc(mi, ll))
            continue
        is_prop = any(dotted(d) == "property" for d in fn.decorator_list)
        cfg = nf.cfg_of(fn)
        if is_prop:
            rets = [n for n in cfg.nodes if n.kind == "stmt" and isinstance(n.ast, ast.Return)]
            vals = {nf.poly(r.ast.value, Scope(cfg, mi, {}, site), r.id).canon() for r in rets}
            ok = bool(vals) and all(v.startswith("self.loggers[") and v.endswith(f"].{name}") for v in vals)
            ck.ob("R1-fan-out", site, "property-of-first-member", ok, f"return {sorted(vals)}", "" if ok else "must report the (identical) value of a member", loc(mi, fn))
            continue
        params = [p for p in positional_params(fn) if p != "self"]
        bparams = [p for p in positional_params(bm) if p != "self"]
        ok = params == bparams
        ck.ob("R1-fan-out", site, "signature", ok, f"({', '.join(params)})", "" if ok else f"signature differs from LoggerBase.{name}({', '.join(bparams)})", loc(mi, fn))
        # the member calls: <loop variable over self.loggers>.<name>(...)
        loops = [n for n in cfg.nodes if n.kind == "for" and isinstance(n.ast.target, ast.Name)]
        member_loops = [n for n in loops if nf.poly(n.ast.iter, Scope(cfg, mi, {}, site), n.id).canon() == "self.loggers"]
        partial_loops = [n for n in loops if n not in member_loops and "self.loggers" in nf.poly(n.ast.iter, Scope(cfg, mi, {}, site), n.id).canon()]
        calls = stmt_calls(cfg, lambda c: isinstance(c.func, ast.Attribute) and c.func.attr == name and isinstance(c.func.value, ast.Name))
        calls = [(n, c) for n, c in calls if any(c.func.value.id == lp.ast.target.id and lp.id in cfg.enclosing_loops(n.id) for lp in member_loops + partial_loops)]
        if not calls and not partial_loops:
            direct = stmt_calls(cfg, lambda c: isinstance(c.func, ast.Attribute) and c.func.attr == name)
            if direct:
                raise AnalysisError(f"{site}: members are not reached through a loop over self.loggers (unrecognised idiom)")
            mentions = any(isinstance(x, ast.Attribute) and x.attr == "loggers" for x in ast.walk(fn)) or any(isinstance(x, ast.Call) and isinstance(x.func, ast.Attribute) and dotted(x.func.value) == "self" for x in ast.walk(fn))
            if mentions:
                raise AnalysisError(f"{site}: the members are handled in a way that is not a direct member call (unrecognised idiom)")
            ck.ob("R1-fan-out", site, "loop-over-all-members", False, "the method never touches self.loggers", "the method does not reach the members", loc(mi, fn))
            continue
        full = bool(calls) and all(any(c.func.value.id == lp.ast.target.id and lp.id in cfg.enclosing_loops(n.id) for lp in member_loops) for n, c in calls) and not partial_loops
        uncond = all(len(cfg.control_deps(n.id)) == 1 for n, c in calls)   # only the loop itself
        okl = full and uncond and len(calls) == 1 and not cfg.enclosing_loops(member_loops[0].id) if member_loops else False
        why = ""
        if not okl:
            if partial_loops or not full:
                why = "the loop does not range over all of self.loggers: some members never receive the record"
            elif not uncond:
                raise AnalysisError(f"{site}: the member call is conditional (unrecognised idiom)")
            else:
                why = "every member must receive the call exactly once"
        ck.ob("R1-fan-out", site, "loop-over-all-members", okl, f"for {member_loops[0].ast.target.id if member_loops else '?'} in self.loggers: .{name}(...)", why, loc(mi, fn))
        if not okl:
            continue
        n, c = calls[0]
        try:
            b = bind_call(bm, c, skip_self=True)
        except Exception:
            raise AnalysisError(f"{site}: cannot bind `{short(c, 60)}` to LoggerBase.{name}")
        sc = Scope(cfg, mi, {p: Poly.atom(p, {p}, {p}) for p in params}, site)
        # every member receives the call's own arguments: each forwarded value is the parameter itself, with no other definition of that
        # name reaching the member call (a location resolved before the fan-out replaces the caller's None)
        got = {}
        for p in bparams:
            a_ = b.get(p)
            if a_ is None or isinstance(a_, list):
                got[p] = None
            elif isinstance(a_, ast.Name):
                ds_ = cfg.defs_of(n.id, a_.id)
                if a_.id == p and ds_ and all(d_.kind == "param" for d_ in ds_):
                    got[p] = p
                elif a_.id == p:
                    got[p] = f"{p} (reassigned at line(s) {sorted({cfg.nodes[d_.node].lineno for d_ in ds_ if d_.kind != 'param'})})"
                else:
                    got[p] = nf.poly(a_, sc, n.id).canon()
            else:
                got[p] = nf.poly(a_, sc, n.id).canon()
        okf = all(got[p] == p for p in bparams)
        ck.ob("R1-fan-out", site, "forwards-all-arguments", okf, f"{name}({', '.join(f'{p}={got[p]}' for p in bparams)})",
              "" if okf else f"every member must receive the identical record: each of ({', '.join(bparams)}) forwarded unchanged to the parameter of the same name", loc(mi, c))


def _record_get(ck, repo, nf):
    for cq in (LG + "MemoryLogger", LG + "StandardLogger"):
        fn = _mi(repo, cq, "record_stat")
        ck.need(fn is not None, f"{cq}.record_stat not found")
        mi = fn._module
        cfg = nf.cfg_of(fn)
        env = {p: Poly.atom(p, {p}, {p}) for p in positional_params(fn)}
        site = f"{cq}.record_stat"
        res = _paths_lits(nf, cfg, mi, site, env)
        bad_count, bad_tuple, bad_default, forms = [], [], [], set()
        none = lambda v: {f"Is(None, {v})", f"Is({v}, None)"}
        for pe, lits, pth in res:
            vals = [v.canon() for _, k, v in pe.appended if k == "self.stats[key]"]
            locs = [v for _, k, v in pe.appended if k == "self.stats_loc[key]"]
            if len(vals) != 1 or len(locs) != 1 or vals[0] != "value":
                bad_count.append((vals, [l.canon() for l in locs]))
                continue
            lt = locs[0]
            if lt.elems is None or len(lt.elems) != 3:
                raise AnalysisError(f"{site}: recorded location `{lt.canon()[:80]}` is not a 3-tuple (unrecognised idiom)")
            e_, s_, t_ = (x.canon() for x in lt.elems)
            forms.add((e_, s_, t_[:40]))
            for got, par, attr in ((e_, "episode", "self._n_episodes"), (s_, "step", "self.n_steps")):
                is_none = any(l in none(par) for l in lits)
                not_none = any(l in {f"IsNot(None, {par})", f"IsNot({par}, None)", f"not(Is(None, {par}))", f"not(Is({par}, None))"} for l in lits)
                ite_ok = {f"ite(Is(None, {par}), {attr}, {par})", f"ite(Is({par}, None), {attr}, {par})", f"ite(IsNot(None, {par}), {par}, {attr})", f"ite(IsNot({par}, None), {par}, {attr})"}
                if got in ite_ok:
                    continue
                if is_none and got == attr or not_none and got == par:
                    continue
                if got in (par, attr) and (is_none or not_none):
                    bad_default.append((par, got, "None" if is_none else "given"))
                elif got in (par, attr) or got.startswith("ite(") or got.startswith("or("):
                    # the role is right but the defaulting rule is another one (e.g. `x or default` treats 0 as missing)
                    bad_default.append((par, got, "?"))
                else:
                    bad_tuple.append((par, got))
            if not (t_ == "t" or "start_time" in t_ or "time()" in t_ or t_.startswith("ite(")):
                bad_tuple.append(("t", t_))
        ck.ob("R2-record-get", site, "appends-once-per-path", not bad_count, f"{len(res)} paths", "" if not bad_count else f"some path records nothing, twice or another value: {bad_count[:1]}", loc(mi, fn))
        ck.ob("R2-record-get", site, "location-tuple", not bad_tuple, f"{sorted(forms)[:3]}", "" if not bad_tuple else f"the location must be (episode, step, time) in this order; got {bad_tuple[:2]}", loc(mi, fn))
        ck.ob("R2-record-get", site, "defaults", not bad_default, "episode <- _n_episodes, step <- n_steps exactly when omitted (None)", "" if not bad_default else f"an explicitly given episode / step (including 0) must be recorded as given, an omitted one must default to the logger's counter: {bad_default[:2]}", loc(mi, fn))
        # get_stat: the x-axis value of a record is the element of the location tuple named by x_key, in recording order
        g = _mi(repo, cq, "get_stat")
        gcfg = nf.cfg_of(g)
        keys = [n for n in ast.walk(g) if isinstance(n, (ast.List, ast.Tuple)) and len(n.elts) == 3 and all(isinstance(e, ast.Constant) and isinstance(e.value, str) for e in n.elts)]
        if not keys:
            raise AnalysisError(f"{cq}.get_stat: table of x keys not found (unrecognised idiom)")
        order = [e.value for e in keys[0].elts]
        oko = order[:2] == ["episode", "step"] and order[2] in ("time", "t")
        ck.ob("R2-record-get", f"{cq}.get_stat", "key-table-matches-tuple-order", oko, f"x keys {order} index the recorded (episode, step, t)", "" if oko else "get_stat must index the location tuple in the order it was recorded", loc(g._module, keys[0]))
        # the selection reads self.stats_loc[key] element-wise with that index and self.stats[key] unchanged
        src = ast.unparse(g)
        if "self.stats_loc[key]" not in src or "self.stats[key]" not in src:
            raise AnalysisError(f"{cq}.get_stat: recorded containers are not read directly (unrecognised idiom)")


def _counters(ck, repo, nf):
    loggers = [LG + x for x in ("StandardLogger", "MemoryLogger", "StdoutLogger", "AIMLogger")] + [OC]
    for cq in loggers:
        cls = repo.cls(cq)
        mi = cls._module
        for meth in cls.body:
            if not isinstance(meth, ast.FunctionDef):
                continue
            meth._module = mi
            for n in ast.walk(meth):
                if isinstance(n, (ast.Assign, ast.AugAssign)):
                    t = n.targets[0] if isinstance(n, ast.Assign) else n.target
                    d = dotted(t)
                    if d not in ("self._n_episodes", "self.n_steps"):
                        continue
                    sc = Scope(None, mi, {}, cq)
                    newv = nf.poly(n.value, sc, None) if isinstance(n, ast.Assign) else nf._binop_polys(Poly.atom(d, {d}, {d}), nf.poly(n.value, sc, None), n.op)
                    nv = newv.canon()
                    if d == "self._n_episodes":
                        ok = (meth.name == "__init__" and nv == "0") or (meth.name == "start_new_episode" and nv == "1 + self._n_episodes")
                        ck.ob("R3-counters", f"{cq}.{meth.name}", "writes:_n_episodes", ok, f"_n_episodes' = {nv}", "" if ok else "the episode counter may only be advanced by one in start_new_episode", loc(mi, n))
                    else:
                        tp = [p for p in positional_params(meth) if p != "self"]
                        ok = (meth.name == "__init__" and nv == "0") or (meth.name == "stop_episode" and tp and nv == nf.poly(parse_expr(f"self.n_steps + {tp[0]}"), sc, None).canon())
                        ck.ob("R3-counters", f"{cq}.{meth.name}", "writes:n_steps", ok, f"n_steps' = {nv}", "" if ok else "the step counter may only be advanced by the episode's step count in stop_episode", loc(mi, n))
        for meth, attr in (("start_new_episode", "self._n_episodes"), ("stop_episode", "self.n_steps")):
            fn = _m(repo, cq, meth)
            ck.need(fn is not None, f"{cq}.{meth} not found")
            cfg = nf.cfg_of(fn)
            ws = [n for n in cfg.nodes if n.kind == "stmt" and isinstance(n.ast, (ast.Assign, ast.AugAssign)) and dotted(n.ast.targets[0] if isinstance(n.ast, ast.Assign) else n.ast.target) == attr]
            ok = len(ws) == 1 and on_every_path_once(cfg, [ws[0].id])
            ck.ob("R3-counters", f"{cq}.{meth}", "advances-counter", ok, f"{[short(n.ast) for n in ws]}", "" if ok else f"must advance {attr} exactly once on every path", loc(fn._module, fn))


def _instance_state(ck, repo):
    """Records live in per-instance containers: a mutable container that the methods grow / index through `self` must be created for
    each instance (bound in a method, normally __init__).  A dict / list literal bound only in the class body is one object shared by
    every instance, so one logger would return what another recorded."""
    n = 0
    for cq in [LG + x for x in ("StandardLogger", "MemoryLogger", "StdoutLogger", "AIMLogger", "LoggerList")] + [OC]:
        cls = repo.cls(cq)
        mi = cls._module
        chain = [repo.cls(c) for c in repo.mro(cq) if c.startswith(repo.PKG)]
        class_level = {}
        bound_in_method, mutated = set(), {}
        for c in chain:
            for st in c.body:
                if isinstance(st, (ast.Assign, ast.AnnAssign)):
                    tg = st.targets[0] if isinstance(st, ast.Assign) else st.target
                    v = st.value
                    if isinstance(tg, ast.Name) and isinstance(v, (ast.Dict, ast.List, ast.Set)) or (isinstance(tg, ast.Name) and isinstance(v, ast.Call) and isinstance(v.func, ast.Name) and v.func.id in ("dict", "list", "set", "defaultdict", "deque")):
                        class_level[tg.id] = st
                if isinstance(st, ast.FunctionDef):
                    for x in ast.walk(st):
                        if isinstance(x, (ast.Assign, ast.AnnAssign, ast.AugAssign)):
                            for t in (x.targets if isinstance(x, ast.Assign) else [x.target]):
                                if isinstance(t, ast.Attribute) and dotted(t.value) == "self":
                                    bound_in_method.add(t.attr)
                                if isinstance(t, ast.Subscript) and isinstance(t.value, ast.Attribute) and dotted(t.value.value) == "self":
                                    mutated.setdefault(t.value.attr, x)
                        if isinstance(x, ast.Call) and isinstance(x.func, ast.Attribute) and x.func.attr in ("append", "extend", "update", "setdefault", "add", "insert", "pop", "clear"):
                            r = x.func.value
                            while isinstance(r, ast.Subscript):
                                r = r.value
                            if isinstance(r, ast.Attribute) and dotted(r.value) == "self":
                                mutated.setdefault(r.attr, x)
        for attr, st in sorted(class_level.items()):
            if attr in mutated:
                n += 1
                ok = attr in bound_in_method
                ck.ob("R2-record-get", cq, f"per-instance:{attr}", ok, f"`{short(st, 60)}` in the class body; mutated by `{short(mutated[attr], 50)}`",
                      "" if ok else f"`{attr}` is one container shared by all instances of the class (bound only in the class body) and is mutated through self: records of different loggers end up in the same container", loc(mi, st))
    ck.count("class-level-mutable-containers", n)


def _save_then_list(ck, repo, nf):
    fn = _mi(repo, LG + "StandardLogger", "_save_checkpoint")
    mi = fn._module
    cfg = nf.cfg_of(fn)
    site = LG + "StandardLogger._save_checkpoint"
    save = stmt_calls(cfg, lambda c: isinstance(c.func, ast.Attribute) and c.func.attr == "save" and dotted(c.func.value) == "self.checkpointer")
    wait = stmt_calls(cfg, lambda c: isinstance(c.func, ast.Attribute) and c.func.attr == "wait_until_finished" and dotted(c.func.value) == "self.checkpointer")
    app = stmt_calls(cfg, lambda c: isinstance(c.func, ast.Attribute) and c.func.attr == "append" and "checkpoint_path" in ast.unparse(c.func.value))
    ck.need(len(save) == 1 and len(app) == 1, f"{site}: save / listing not found (unrecognised idiom)")
    ok = len(wait) >= 1 and cfg.dominates(save[0][0].id, wait[0][0].id) and cfg.dominates(wait[0][0].id, app[0][0].id)
    ck.ob("R4-save-before-list", site, "save-wait-append", ok, " -> ".join(short(c, 50) for _, c in save + wait + app), "" if ok else "a path may be listed only after it was saved and the write finished", loc(mi, fn))
    sc = Scope(cfg, mi, {}, "s")
    p_save = nf.poly(save[0][1].args[0], sc, save[0][0].id).canon()
    p_app = nf.poly(app[0][1].args[0], sc, app[0][0].id).canon()
    ck.ob("R4-save-before-list", site, "same-path", p_save == p_app, f"saved {p_save[:60]} ; listed {p_app[:60]}", "" if p_save == p_app else "the listed path is not the one that was written", loc(mi, fn))
    fn = _mi(repo, OC, "_save_checkpoint")
    cfg = nf.cfg_of(fn)
    site = OC + "._save_checkpoint"
    save = stmt_calls(cfg, lambda c: isinstance(c.func, ast.Attribute) and c.func.attr == "save_model" and dotted(c.func.value) == "self")
    app = stmt_calls(cfg, lambda c: isinstance(c.func, ast.Attribute) and c.func.attr == "append" and "checkpoint_path" in ast.unparse(c.func.value))
    ck.need(len(save) == 1 and len(app) == 1, f"{site}: save / listing not found (unrecognised idiom)")
    sc = Scope(cfg, fn._module, {}, "s")
    sm = repo.method(OC, "save_model")[1]
    bs = bind_call(sm, save[0][1], skip_self=True)
    p_save = nf.poly(bs[positional_params(sm)[1]], sc, save[0][0].id).canon()
    p_app = nf.poly(app[0][1].args[0], sc, app[0][0].id).canon()
    ok = cfg.dominates(save[0][0].id, app[0][0].id) and p_save == p_app
    ck.ob("R4-save-before-list", site, "save-then-append", ok, f"save_model({p_save[:50]}) -> append({p_app[:50]})", "" if ok else "the path must be saved before it is listed, and be the same path", loc(fn._module, fn))


def _save_model_waits(ck, repo, nf):
    fn = _mi(repo, OC, "save_model")
    cfg = nf.cfg_of(fn)
    save = stmt_calls(cfg, lambda c: isinstance(c.func, ast.Attribute) and c.func.attr == "save" and dotted(c.func.value) == "self.checkpointer")
    wait = stmt_calls(cfg, lambda c: isinstance(c.func, ast.Attribute) and c.func.attr == "wait_until_finished" and dotted(c.func.value) == "self.checkpointer")
    ck.need(len(save) == 1, f"{OC}.save_model: expected one self.checkpointer.save call")
    ok = len(wait) >= 1 and all(cfg.dominates(save[0][0].id, w.id) for w, _ in wait) and cfg.paths_avoiding(save[0][0].id, cfg.exit, {w.id for w, _ in wait}) is None
    ck.ob("R4-save-before-list", OC + ".save_model", "save-and-wait", ok, "save ; wait_until_finished on every path", "" if ok else "the write must be awaited before save_model returns: the caller lists the path right afterwards", loc(fn._module, fn))


def _cadence(ck, repo, nf):
    from ..sem import bool_equiv
    fn = _mi(repo, OC, "record_epoch")
    mi = fn._module
    cfg = nf.cfg_of(fn)
    site = OC + ".record_epoch"
    saves = stmt_calls(cfg, lambda c: isinstance(c.func, ast.Attribute) and c.func.attr == "_save_checkpoint" and dotted(c.func.value) == "self")
    ck.need(len(saves) >= 1, f"{site}: no checkpoint call (anchor vanished)")
    ok1 = len(saves) == 1 and not cfg.enclosing_loops(saves[0][0].id)
    ck.ob("R5-cadence", site, "one-save-per-record", ok1, f"{len(saves)} save call(s)", "" if ok1 else "at most one checkpoint may be written per record", loc(mi, fn))
    if not ok1:
        return
    sn, scall = saves[0]
    # the condition under which the save runs: conjunction of its (syntactic + dominating) branch conditions, as one boolean expression
    conds = []
    for b, lab in cfg.control_deps(sn.id):
        bn = cfg.nodes[b]
        if bn.kind == "test" and isinstance(bn.ast, ast.If):
            conds.append(bn.ast.test if lab else ast.UnaryOp(op=ast.Not(), operand=bn.ast.test))
    syntactic = {b for b, _ in cfg.control_deps(sn.id)}
    for bn in cfg.nodes:
        if bn.kind == "test" and isinstance(bn.ast, ast.If) and bn.id not in syntactic and cfg.dominates(bn.id, sn.id):
            reach = {lab: cfg.paths_avoiding(bn.id, sn.id, set(), feasible=False, first_label=lab) is not None for lab in (True, False)}
            if reach[True] != reach[False]:
                conds.append(bn.ast.test if reach[True] else ast.UnaryOp(op=ast.Not(), operand=bn.ast.test))
    # conditions about verbosity / None-defaults are not part of the cadence
    conds = [c for c in conds if "verbose" not in ast.unparse(c) and " is None" not in ast.unparse(c) and " is not None" not in ast.unparse(c)]
    if not conds:
        ck.ob("R5-cadence", site, "wrap-or-gap-predicate", False, "the save is unconditional", "a checkpoint is written on every record, not once per crossed interval", loc(mi, scall))
        return
    got = conds[0] if len(conds) == 1 else ast.BoolOp(op=ast.And(), values=conds)
    want = parse_expr("(key in self.checkpoint_frequencies) and ((self.last_step[key] % self.checkpoint_frequencies[key] > step % self.checkpoint_frequencies[key]) or (step - self.last_step[key] >= self.checkpoint_frequencies[key]))")
    ast.fix_missing_locations(got)
    eq = bool_equiv(nf, mi, got, want, cfg1=cfg, at1=sn.id, opaque1=set(positional_params(fn)))
    if eq is None:
        raise AnalysisError(f"{site}: the condition of the checkpoint `{short(got, 120)}` is built from other comparisons than the documented wrap-or-gap test: equivalence not decidable here")
    ck.ob("R5-cadence", site, "wrap-or-gap-predicate", eq, f"save iff {short(got, 150)}", "" if eq else f"documented predicate: registered key and (last % f > step % f or step - last >= f); the truth tables differ", loc(mi, scall))
    # last_step[key] = step on every path, after the guard read the previous value
    upd = [n for n in cfg.nodes if n.kind == "stmt" and isinstance(n.ast, ast.Assign) and isinstance(n.ast.targets[0], ast.Subscript) and dotted(n.ast.targets[0].value) == "self.last_step"]
    reads = [n for n in cfg.nodes if n.kind == "test" and "self.last_step" in ast.unparse(n.ast.test)] + [n for n in cfg.nodes if n.kind == "stmt" and n not in upd and n.ast is not None and "self.last_step" in ast.unparse(n.ast)]
    usc = Scope(cfg, mi, {}, site)
    usc.opaque_names = set(positional_params(fn))
    ok = len(upd) == 1 and nf.poly(upd[0].ast.value, usc, upd[0].id).canon() in ("step", "ite(Is(None, step), self.n_steps, step)", "ite(Is(step, None), self.n_steps, step)") \
        and cfg.paths_avoiding(cfg.entry, cfg.exit, {upd[0].id}) is None and all(cfg.paths_avoiding(upd[0].id, r.id, set()) is None for r in reads)
    if len(upd) == 1 and not ok:
        v = nf.poly(upd[0].ast.value, Scope(cfg, mi, {}, site), upd[0].id).canon()
        if "step" not in v and "n_steps" not in v:
            raise AnalysisError(f"{site}: last_step[key] is set to `{v}` (unrecognised idiom)")
    ck.ob("R5-cadence", site, "last-step-updated-after-guard", ok, f"{[short(n.ast) for n in upd]}", "" if ok else "last_step[key] must be set to step on every path, after the test read the previous value (otherwise crossings are missed or counted again)", loc(mi, fn))
    fn2 = _mi(repo, OC, "define_checkpoint_frequency")
    pe = PathEval(nf, nf.cfg_of(fn2), fn2._module, "dcf", {p: Poly.atom(p, {p}, {p}) for p in positional_params(fn2)})
    for nid, lab in enumerate_paths(nf.cfg_of(fn2), nf.cfg_of(fn2).entry, {nf.cfg_of(fn2).exit})[0][:-1]:
        pe.step(nid, lab)
    st = {k: v.canon() for k, v in pe.store.items()}
    ip = [p for p in positional_params(fn2) if p not in ("self", "key")][0]
    ok = st.get("self.checkpoint_frequencies[key]") == ip and st.get("self.last_step[key]") == "0" and st.get("self.checkpoint_path[key]") in ("()", "[]", "list()")
    ck.ob("R5-cadence", OC + ".define_checkpoint_frequency", "initial-state", ok, f"{ {k: v for k, v in st.items() if '[key]' in k} }", "" if ok else "registration must initialise interval, an empty path list and last step 0", loc(fn2._module, fn2))
    # StandardLogger: the counter is advanced exactly once per record, the checkpoint is written iff the key is registered and the
    # advanced counter is a multiple of the interval
    fn = _mi(repo, LG + "StandardLogger", "record_epoch")
    mi = fn._module
    cfg = nf.cfg_of(fn)
    site = LG + "StandardLogger.record_epoch"
    env = {p: Poly.atom(p, {p}, {p}) for p in positional_params(fn)}
    res = _paths_lits(nf, cfg, mi, site, env)
    EP = "self.epoch[key]"
    F = "self.checkpoint_frequencies[key]"
    reg = {"In(key, self.checkpoint_frequencies)"}
    due = {f"Eq(0, mod(1 + {EP}, {F}))", f"not(mod(1 + {EP}, {F}))"}
    not_due = {f"NotEq(0, mod(1 + {EP}, {F}))", f"mod(1 + {EP}, {F})"}
    bad_inc, bad_save = [], []
    for pe, lits, pth in res:
        newc = pe.store.get(EP)
        first = any(l in ("NotIn(key, self.epoch)", "not(In(key, self.epoch))") for l in lits)
        want_c = "1" if first else f"1 + {EP}"
        if newc is None or newc.canon() != want_c:
            bad_inc.append((newc.canon() if newc is not None else None, want_c))
        n_saves = sum(1 for nid, lab in pth if cfg.nodes[nid].kind == "stmt" and cfg.nodes[nid].ast is not None and any(isinstance(c, ast.Call) and isinstance(c.func, ast.Attribute) and c.func.attr == "_save_checkpoint" for c in ast.walk(cfg.nodes[nid].ast)))
        is_reg = any(l in reg for l in lits)
        is_unreg = any(l in {"NotIn(key, self.checkpoint_frequencies)", "not(In(key, self.checkpoint_frequencies))"} for l in lits)
        dl = {l.replace("mod(1, ", f"mod(1 + {EP}, ") if first else l for l in lits}
        is_due = any(l in due for l in dl)
        is_not_due = any(l in not_due for l in dl)
        if n_saves > 1:
            bad_save.append(("twice", lits))
        elif n_saves == 1 and not (is_reg and is_due):
            if is_reg or is_due or not any("mod(" in l for l in lits):
                bad_save.append(("saved although not (registered and due)", [l for l in lits if "mod(" in l or "checkpoint_frequencies" in l]))
            else:
                raise AnalysisError(f"{site}: checkpoint written under {[l for l in lits if 'mod(' in l or 'checkpoint' in l]} (unrecognised idiom)")
        elif n_saves == 0 and is_reg and is_due:
            bad_save.append(("not saved although registered and due", []))
    ck.ob("R5-cadence", site, "count-then-test", not bad_inc, "epoch[key] advances by one on every path", "" if not bad_inc else f"every recorded epoch increments the counter exactly once: {bad_inc[:2]}", loc(mi, fn))
    ck.ob("R5-cadence", site, "every-interval-th-epoch", not bad_save, "checkpoint iff key registered and the advanced epoch counter is a multiple of the interval", "" if not bad_save else f"{bad_save[:2]}", loc(mi, fn))


def run(ck, repo: Repo, tier: str):
    nf = NF(repo, inline_depth=1, inline_calls=False)
    for group in (_fan_out, _record_get, _counters, _save_then_list, _save_model_waits, _cadence):
        ck.guard(group, ck, repo, nf)
    ck.guard(_instance_state, ck, repo)


def _split_top(s):
    out, depth, cur = [], 0, ""
    for ch in s:
        if ch in "([{":
            depth += 1
        elif ch in ")]}":
            depth -= 1
        if ch == "," and depth == 0:
            out.append(cur.strip())
            cur = ""
        else:
            cur += ch
    if cur.strip():
        out.append(cur.strip())
    return out


_L, _C = "rl_blox/logging/logger.py", "rl_blox/logging/checkpointer.py"
MUTANTS = [
    {"id": "c20-memory-shared-stats", "file": "rl_blox/logging/logger.py", "rule": "R2", "edits": [("class MemoryLogger(LoggerBase):\n", "class MemoryLogger(LoggerBase):\n    stats = {}\n    stats_loc = {}\n"), ("        self.n_steps = 0\n        self.stats_loc = {}\n        self.stats = {}\n", "        self.n_steps = 0\n")]},
    {"id": "c20-list-drops-step", "file": _L, "rule": "R1", "find": "                key, value, episode, step, t, verbose, format_str\n", "replace": "                key, value, episode, None, t, verbose, format_str\n"},
    {"id": "c20-list-swaps-episode-step", "file": _L, "rule": "R1", "find": "                key, value, episode, step, t, verbose, format_str\n", "replace": "                key, value, step, episode, t, verbose, format_str\n"},
    {"id": "c20-list-first-only", "file": _L, "rule": "R1", "find": "        for logger in self.loggers:\n            logger.record_epoch(key, value, episode, step, t)", "replace": "        for logger in self.loggers[:1]:\n            logger.record_epoch(key, value, episode, step, t)"},
    {"id": "c20-list-no-stop", "file": _L, "rule": "R1", "find": "        for logger in self.loggers:\n            logger.stop_episode(total_steps)", "replace": "        for logger in self.loggers:\n            logger.stop_episode(0)"},
    {"id": "c20-memory-tuple-order", "file": _L, "rule": "R2", "nth": 1, "find": "        self.stats_loc[key].append((episode, step, t))", "replace": "        self.stats_loc[key].append((step, episode, t))"},
    {"id": "c20-standard-skip-when-quiet", "file": _L, "rule": "R2", "nth": 0, "find": "        self.stats_loc[key].append((episode, step, t))\n        self.stats[key].append(value)\n        verbose = self.verbose if verbose is None else verbose", "replace": "        verbose = self.verbose if verbose is None else verbose\n        if verbose or key != \"episode_length\":\n            self.stats_loc[key].append((episode, step, t))\n        self.stats[key].append(value)"},
    {"id": "c20-memory-default-step", "file": _L, "rule": "R2", "nth": 1, "find": "        if step is None:\n            step = self.n_steps\n        if t is None:\n            t = time.time() - self.start_time\n        self.stats_loc[key].append((episode, step, t))\n        self.stats[key].append(value)\n\n    def get_stat", "replace": "        if step is None:\n            step = self._n_episodes\n        if t is None:\n            t = time.time() - self.start_time\n        self.stats_loc[key].append((episode, step, t))\n        self.stats[key].append(value)\n\n    def get_stat"},
    {"id": "c20-get-stat-keys", "file": _L, "rule": "R2", "nth": 0, "find": "        X_KEYS = [\"episode\", \"step\", \"time\"]", "replace": "        X_KEYS = [\"step\", \"episode\", \"time\"]"},
    {"id": "c20-counter-in-record", "file": _L, "rule": "R3", "nth": 0, "find": "        if episode is None:\n            episode = self._n_episodes\n        if step is None:\n            step = self.n_steps\n        if t is None:\n            t = time.time() - self.start_time\n        self.stats_loc[key].append((episode, step, t))", "replace": "        if episode is None:\n            episode = self._n_episodes\n        if step is None:\n            self.n_steps += 1\n            step = self.n_steps\n        if t is None:\n            t = time.time() - self.start_time\n        self.stats_loc[key].append((episode, step, t))"},
    {"id": "c20-stop-episode-plus-one", "file": _L, "rule": "R3", "nth": 0, "find": "        self.n_steps += total_steps\n        self.record_stat(\"episode_length\", total_steps, verbose=0)", "replace": "        self.n_steps += total_steps + 1\n        self.record_stat(\"episode_length\", total_steps, verbose=0)"},
    {"id": "c20-append-before-wait", "file": _L, "rule": "R4", "find": "        self.checkpointer.save(f\"{checkpoint_path}\", state)\n        self.checkpointer.wait_until_finished()\n        self.checkpoint_path[key].append(checkpoint_path)", "replace": "        self.checkpoint_path[key].append(checkpoint_path)\n        self.checkpointer.save(f\"{checkpoint_path}\", state)\n        self.checkpointer.wait_until_finished()"},
    {"id": "c20-orbax-no-wait", "file": _C, "rule": "R4", "find": "        self.checkpointer.save(path, state)\n        self.checkpointer.wait_until_finished()", "replace": "        self.checkpointer.save(path, state)"},
    {"id": "c20-orbax-last-step-before-guard", "file": _C, "rule": "R5", "find": "        if key in self.checkpoint_frequencies:\n            # check", "replace": "        self.last_step[key] = step\n        if key in self.checkpoint_frequencies:\n            # check"},
    {"id": "c20-orbax-last-step-only-on-save", "file": _C, "rule": "R5", "find": "                self._save_checkpoint(key, value, step)\n\n        self.last_step[key] = step", "replace": "                self._save_checkpoint(key, value, step)\n                self.last_step[key] = step"},
    {"id": "c20-orbax-gap-gt", "file": _C, "rule": "R5", "find": "                (step - self.last_step[key]) >= self.checkpoint_frequencies[key]", "replace": "                (step - self.last_step[key]) > self.checkpoint_frequencies[key]"},
    {"id": "c20-orbax-wrap-ge", "file": _C, "rule": "R5", "find": "                > step % self.checkpoint_frequencies[key]", "replace": "                >= step % self.checkpoint_frequencies[key]"},
    {"id": "c20-standard-test-before-inc", "file": _L, "rule": "R5", "find": "        self.epoch_loc[key].append((episode, step, t))\n        self.epoch[key] += 1\n", "replace": "        self.epoch_loc[key].append((episode, step, t))\n"},
]
BENIGN = [
    {"id": "c20-b-list-kwargs", "file": _L, "find": "            logger.record_epoch(key, value, episode, step, t)", "replace": "            logger.record_epoch(key, value, episode=episode, step=step, t=t)"},
    {"id": "c20-b-standard-order", "file": _L, "nth": 0, "find": "        self.stats_loc[key].append((episode, step, t))\n        self.stats[key].append(value)", "replace": "        self.stats[key].append(value)\n        self.stats_loc[key].append((episode, step, t))"},
]
