"""C20 - loggers record faithfully and checkpoint at interval crossings (structural part)."""
from __future__ import annotations

import ast
import re

from ..cfg import CFG
from ..loops import dotted
from ..nf import NF, Scope, Poly, parse_expr
from ..repo import Repo, loc, short, AnalysisError, positional_params, param_names, bind_call
from ..sem import stmt_calls, on_every_path_once, recv_canon, arg_of
from ..sympath import enumerate_paths, PathEval

EXPLANATION = (
    "Fan-out completeness: LoggerList overrides every public method of LoggerBase and each override is a loop over self.loggers that calls "
    "the same-named method with every parameter of its own signature in the callee's positional order; the loop (or an eagerly evaluated "
    "comprehension) reaches every member: a break / return in the loop body, or a reduction that stops at the first true / false item "
    "(any / all over a generator), is a path on which later members are skipped when the members' implementations can return such a "
    "value (constants returned on some path; otherwise undecided). Record / get agreement: on every "
    "path (enumerated) record_stat of the in-memory and standard loggers appends exactly once to stats[key] and once to stats_loc[key] the "
    "tuple (episode, step, t) with the documented defaults, in the order of the X_KEYS table get_stat indexes. Counter ownership: "
    "_n_episodes / n_steps are written only by start_new_episode / stop_episode in all loggers. Checkpoint listing: the path is appended "
    "only after save and wait_until_finished on the same path (dominance). Cadence state: the Orbax logger updates last_step[key] on every "
    "path after evaluating the guard, saves at most once per record_epoch, and its guard is the documented wrap-or-gap predicate; the "
    "standard logger increments epoch[key] exactly once before testing epoch % interval == 0. A cadence written as a lower bound on the "
    "recorded step (save when step >= E(state)) whose state is advanced, on the save path, to a value that does not depend on the step is "
    "a violation (dataflow fact: a record with a large step and its repetition both save); a bound that follows the step is not decided. "
    "The arithmetic equivalence of the wrap-or-gap "
    "predicate with `a multiple of the interval was passed` is NOT decided (hand argument in DESIGN.md). A violation is reported only on "
    "positive evidence (a path witness, a wrong constant, a value built from the documented ingredients but combined differently); a "
    "construct the rules cannot read is reported as undecided."
)
TRUSTED = ["Orbax StandardCheckpointer.save / wait_until_finished", "list.append preserves recording order"]
RULES = {
    "R1-fan-out": "LoggerList overrides every LoggerBase method; each override forwards all its parameters, in order, to the same method of every member; no early exit / short-circuiting reduction skips later members",
    "R2-record-get": "record_stat appends value and (episode, step, t) exactly once per call on every path; defaults episode <- _n_episodes, step <- n_steps; tuple order == X_KEYS of get_stat",
    "R3-counters": "_n_episodes is written only by start_new_episode (+= 1), n_steps only by stop_episode (+= total_steps)",
    "R4-save-before-list": "checkpoint_path[key].append(p) is dominated by save(p, state) and wait_until_finished(); the state saved is unfiltered",
    "R5-cadence": "Orbax: guard == (last % f > step % f) or (step - last >= f); last_step[key] = step on every path after the guard; one save per record; Standard: epoch[key] += 1 once, then epoch[key] % f == 0; a bound on the step must be advanced to a value that depends on the step",
}

LG = "rl_blox.logging.logger."
OC = "rl_blox.logging.checkpointer.OrbaxCheckpointer"
BASE = LG + "LoggerBase"


def _mi(repo, cq, name):
    """The method as the class has it (own or inherited from a repository base class); undecided when it does not exist."""
    m = repo.method(cq, name)
    if m is None:
        raise AnalysisError(f"{cq}.{name} not found (anchor vanished)")
    fn = m[1]
    fn._module = repo.cls(m[0])._module
    return fn


def _public_methods(cls):
    return [n for n in cls.body if isinstance(n, ast.FunctionDef) and not n.name.startswith("_")]


# ---------------------------------------------------------------------------------------------------------------------------
# evidence discipline: a value that differs from the documented one is a violation only when it is built from the documented ingredients
# (combined differently, or a constant); anything else is a form the rule cannot read
_OPS = {"None", "True", "False", "ite", "Is", "IsNot", "not", "or", "and", "Eq", "NotEq", "In", "NotIn", "mod", "self"}


def _toks(c) -> set:
    return set(re.findall(r"[A-Za-z_][A-Za-z_0-9]*", c if isinstance(c, str) else c.canon()))


def _built_from(c, allowed, ops=_OPS) -> bool:
    return _toks(c) <= set(allowed) | set(ops)


def _unread(c) -> bool:
    """The canonical text contains a merge of definitions, an opaque comprehension / lambda or a temporary of the helper expander."""
    return bool(re.search(r"φ\(|⟦|__i\d", c if isinstance(c, str) else c.canon()))


def _self_attr(e, attrs) -> bool:
    return isinstance(e, ast.Attribute) and e.attr in attrs and isinstance(e.value, ast.Name) and e.value.id == "self"


def _mentions(tree, attrs) -> bool:
    return any(_self_attr(x, attrs) for x in ast.walk(tree))


def _alias_value(cfg, nid, e, depth=0):
    """`x` -> (the expression bound by the only definition of the local x reaching node nid, its node); other expressions unchanged."""
    while isinstance(e, ast.Name) and depth < 4:
        ds = cfg.defs_of(nid, e.id)
        if len(ds) == 1 and ds[0].kind == "assign" and ds[0].value is not None and not ds[0].path:
            e, nid, depth = ds[0].value, ds[0].node, depth + 1
        else:
            break
    return e, nid


def _self_calls(nf, cfg, mi, recv, attr):
    """(node, call) of `<recv>.<attr>(...)`, the receiver read through local aliases (`cp = self.checkpointer; cp.save(..)`)."""
    return [(n, c) for n, c in stmt_calls(cfg, lambda c: isinstance(c.func, ast.Attribute) and c.func.attr == attr) if recv_canon(nf, cfg, mi, n, c) == recv]


def _opaque_self_calls(nf, cfg, mi, known):
    """Calls of methods of self (or of objects held by self) that are not in ``known`` [(receiver, attr)]: they may do anything."""
    out = []
    for n, c in stmt_calls(cfg, lambda c: isinstance(c.func, ast.Attribute)):
        rc = recv_canon(nf, cfg, mi, n, c)
        if (rc == "self" or rc.startswith("self.") or rc.startswith("super()")) and not any(rc == r or (r.endswith("[") and rc.startswith(r)) for r, a in known if a == c.func.attr):
            out.append((n, c))
    return out


def _split_top(s):
    out, depth, cur = [], 0, ""
    for ch in s:
        if ch in "([{":
            depth += 1
        elif ch in ")]}":
            depth -= 1
        if ch == "," and depth == 0:
            out.append(cur.strip())
            cur = ""
        else:
            cur += ch
    if cur.strip():
        out.append(cur.strip())
    return out


def _literals(c: str, truth: bool) -> list:
    """The atomic literals that hold when the canonical boolean text ``c`` has the value ``truth``: and(..) is split when true, or(..)
    when false (De Morgan), not(..) flips; anything else is one literal (negated with the orientation rules of the engine)."""
    from ..sem import _negate

    def call(name):
        if not (c.startswith(name + "(") and c.endswith(")")):
            return None
        depth = 0
        for i, ch in enumerate(c):
            depth += ch == "("
            depth -= ch == ")"
            if depth == 0 and ch == ")" and i != len(c) - 1:
                return None      # the closing bracket of `name(` is not the last character
        return c[len(name) + 1:-1]
    if call("not") is not None:
        return _literals(call("not"), not truth)
    if truth and call("and") is not None:
        return [l for a in _split_top(call("and")) for l in _literals(a, True)]
    if not truth and call("or") is not None:
        return [l for a in _split_top(call("or")) for l in _literals(a, False)]
    return [c] if truth else [_negate(c)]


_COMPOUND = ("or(", "and(", "not(or(", "not(and(", "ite(")


def _paths_lits(nf, cfg, mi, site, env, stops=None, max_paths=4000, before=None):
    """[(PathEval after the path, canonical literals of the branches taken, path)] for every entry -> stop path.
    ``before(pe, node id)`` is called before a node is evaluated (state in which the node's expressions are read)."""
    out = []
    try:
        paths = enumerate_paths(cfg, cfg.entry, stops or {cfg.exit}, max_paths=max_paths)
    except RuntimeError:
        raise AnalysisError(f"{site}: too many paths for the per-path evaluation")
    for pth in paths:
        pe = PathEval(nf, cfg, mi, site, env)
        pe.grown = []
        lits = []
        for nid, lab in pth[:-1]:
            nd = cfg.nodes[nid]
            if nd.kind == "test" and lab in (True, False) and hasattr(nd.ast, "test") and isinstance(nd.ast, ast.If):
                lits += _literals(pe.ev(nd.ast.test).canon(), lab)
            if before is not None:
                before(pe, nid)
            pe.step(nid, lab)
        out.append((pe, lits, pth))
    return out


# ---------------------------------------------------------------------------------------------------------------------------
def _members_iter(nf, cfg, mi, site, n):
    """What a loop ranges over (see _members_of)."""
    return _members_of(nf, cfg, mi, site, n.id, n.ast.iter)


def _members_of(nf, cfg, mi, site, nid, it):
    """What the iterable ``it`` (read at node nid) ranges over: 'all' (self.loggers, possibly re-packed by list / tuple / iter / reversed /
    copy / [:]), 'part' (a proper slice of self.loggers), None (something else).  A form that involves the members in another way is undecided."""
    if nf.poly(it, Scope(cfg, mi, {}, site), nid).canon() == "self.loggers":
        return "all"
    e, at = _alias_value(cfg, nid, it)
    part = False
    for _ in range(6):
        if isinstance(e, ast.Call) and isinstance(e.func, ast.Name) and e.func.id in ("list", "tuple", "iter", "reversed") and len(e.args) == 1 and not e.keywords and not isinstance(e.args[0], ast.Starred):
            e, at = _alias_value(cfg, at, e.args[0])
        elif isinstance(e, ast.Call) and isinstance(e.func, ast.Attribute) and e.func.attr == "copy" and not e.args and not e.keywords:
            e, at = _alias_value(cfg, at, e.func.value)
        elif isinstance(e, ast.Subscript) and isinstance(e.slice, ast.Slice):
            zero_or_none = lambda b, z: b is None or (isinstance(b, ast.Constant) and b.value == z and type(b.value) is int)
            if not (zero_or_none(e.slice.lower, 0) and e.slice.upper is None and zero_or_none(e.slice.step, 1)):
                part = True
            e, at = _alias_value(cfg, at, e.value)
        else:
            break
    if _self_attr(e, ("loggers",)):
        return "part" if part else "all"
    if _mentions(it, ("loggers",)) or _mentions(e, ("loggers",)):
        raise AnalysisError(f"{site}: loop over `{short(it, 60)}` involves the members in a way that is not read (unrecognised form)")
    return None


_EAGER = {"list", "tuple", "set", "frozenset", "sorted"}      # consumers that exhaust a generator whatever its items are
_ALWAYS_EVALUATED = (ast.Call, ast.keyword, ast.Starred, ast.Tuple, ast.List, ast.Set, ast.Attribute, ast.Subscript, ast.UnaryOp, ast.BinOp,
                     ast.Compare, ast.JoinedStr, ast.FormattedValue, ast.Expr, ast.Assign, ast.AnnAssign, ast.Return)


def _member_comprehensions(nf, cfg, mi, site, name):
    """[(node, comprehension, member call, 'all' | 'part', consumer)] for the comprehensions / generator expressions over the members
    whose element is the call `<item>.<name>(...)`.  consumer: 'eager' (a list / set display, or a generator handed to a consumer that
    exhausts it), 'any' / 'all' (a reduction that stops at the first true / false item).  Everything else is undecided."""
    out = []
    for n in cfg.nodes:
        if n.ast is None or n.kind in ("entry", "exit", "def"):
            continue
        roots = [n.ast] if n.kind == "stmt" else [n.ast.test] if n.kind == "test" and hasattr(n.ast, "test") else [n.ast.iter] if n.kind == "for" else [i.context_expr for i in n.ast.items] if n.kind == "with" else []
        for r in roots:
            for comp in ast.walk(r):
                if not isinstance(comp, (ast.ListComp, ast.SetComp, ast.GeneratorExp, ast.DictComp)):
                    continue
                kinds = [_members_of(nf, cfg, mi, site, n.id, g.iter) for g in comp.generators]
                if not any(kinds):
                    continue
                g = comp.generators[0]
                elt = getattr(comp, "elt", None)
                calls = [c for c in ast.walk(comp) if isinstance(c, ast.Call) and isinstance(c.func, ast.Attribute) and c.func.attr == name and isinstance(c.func.value, ast.Name) and isinstance(g.target, ast.Name) and c.func.value.id == g.target.id]
                if not calls and isinstance(g.target, ast.Name) and len(comp.generators) == 1:
                    continue     # a comprehension over the members that does not call this method (it computes something else)
                if len(comp.generators) != 1 or g.ifs or g.is_async or not isinstance(g.target, ast.Name) or len(calls) != 1 or calls[0] is not elt:
                    raise AnalysisError(f"{site}: `{short(comp, 70)}` reaches the members through a comprehension that is not read (unrecognised form)")
                if n.kind != "stmt" or cfg.control_deps(n.id):
                    raise AnalysisError(f"{site}: the comprehension over the members is conditional or nested (unrecognised form)")
                consumer = "eager"
                x, par = comp, getattr(comp, "_parent", None)
                if isinstance(comp, ast.GeneratorExp):
                    consumer = None
                    if isinstance(par, ast.Call) and isinstance(par.func, ast.Name) and len(par.args) == 1 and par.args[0] is comp and not par.keywords:
                        consumer = "eager" if par.func.id in _EAGER else par.func.id if par.func.id in ("any", "all") else None
                    if consumer is None:
                        raise AnalysisError(f"{site}: it is not known how far `{short(par if par is not None else comp, 70)}` consumes the generator over the members (unrecognised form)")
                while par is not None and x is not n.ast:      # the comprehension itself is evaluated whenever the statement is
                    if not isinstance(par, _ALWAYS_EVALUATED):
                        raise AnalysisError(f"{site}: the comprehension over the members is part of `{short(par, 60)}` (unrecognised form)")
                    x, par = par, getattr(par, "_parent", None)
                if x is not n.ast:
                    raise AnalysisError(f"{site}: the comprehension over the members is not placed in its statement (unrecognised form)")
                out.append((n, comp, calls[0], kinds[0], consumer))
    return out


def _member_results(repo, nf, name):
    """{'truthy' | 'falsy' | 'unknown': witness text}: what the implementations of interface method ``name`` (all repository loggers but
    the list itself) return on some path.  A path without a return value / with `return None` / a false constant is 'falsy', a path that
    returns a true constant is 'truthy' (both are path witnesses); any other value is 'unknown'."""
    LL = LG + "LoggerList"
    kinds, seen = {}, set()
    for cq in [BASE] + repo.subclasses(BASE):
        if cq == LL or LL in repo.mro(cq):
            continue
        m = repo.method(cq, name)
        if m is None or id(m[1]) in seen:
            continue
        seen.add(id(m[1]))
        fn = m[1]
        if any(dotted(d) in ("abc.abstractmethod", "abstractmethod") for d in fn.decorator_list):
            continue     # never the implementation of a member
        where = f"{m[0].rsplit('.', 1)[-1]}.{name}"
        if any(isinstance(x, (ast.Yield, ast.YieldFrom, ast.Await)) for x in ast.walk(fn)) or any(dotted(d) == "property" for d in fn.decorator_list):
            kinds.setdefault("unknown", where)
            continue
        mi = fn._module = repo.cls(m[0])._module
        cfg = nf.cfg_of(fn)
        rets = {}

        def before(pe, nid, cfg=cfg, rets=rets):
            s = cfg.nodes[nid].ast
            if cfg.nodes[nid].kind == "stmt" and isinstance(s, ast.Return):
                rets[id(pe)] = (pe.ev(s.value) if s.value is not None else None, s)
        try:
            res = _paths_lits(nf, cfg, mi, where, {p: Poly.atom(p, {p}, {p}) for p in param_names(fn)}, before=before)
        except Exception:
            kinds.setdefault("unknown", where)
            continue
        for pe, lits, pth in res:
            v, at = rets.get(id(pe), (None, fn))
            if v is None or v.canon() == "None":
                k = "falsy"
            elif v.is_const():
                k = "truthy" if v.const_value() != 0 else "falsy"
            else:
                k = "unknown"
            kinds.setdefault(k, f"{where} returns `{short(at.value, 40) if isinstance(at, ast.Return) and at.value is not None else None}` ({loc(mi, at)})")
    return kinds


def _stops_early(repo, nf, site, name, stop_on):
    """(ok, text): can a fan-out that stops at the first member whose result is true ('truthy') / false ('falsy') stop before the
    last member?  Decided from the results the members' implementations return; undecided when those are not constants."""
    kinds = _member_results(repo, nf, name)
    other = "falsy" if stop_on == "truthy" else "truthy"
    if stop_on in kinds:
        return False, f"stops at the first member whose result is {'true' if stop_on == 'truthy' else 'false'}; {kinds[stop_on]}"
    if kinds and set(kinds) <= {other}:
        return True, f"never stops: every implementation returns a {'false' if other == 'falsy' else 'true'} value ({kinds[other]})"
    raise AnalysisError(f"{site}: the fan-out stops at the first {'true' if stop_on == 'truthy' else 'false'} result, and what the members return is not a constant: {kinds.get('unknown', 'no implementation found')} (unrecognised form)")


def _loop_exits(cfg, lp, call_node, call):
    """[(exit node, 'always' | 'truthy' | 'falsy')]: the break / return statements that leave the member loop ``lp``, and under which
    result of the member call they are taken.  An exit under any other condition is undecided."""
    out = []
    for x in cfg.nodes:
        if x.kind != "stmt" or not isinstance(x.ast, (ast.Break, ast.Return)) or lp.id not in cfg.enclosing_loops(x.id):
            continue
        if isinstance(x.ast, ast.Break) and cfg.enclosing_loops(x.id)[0] != lp.id:
            continue      # leaves an inner loop only
        anc = getattr(x.ast, "_parent", None)
        while anc is not None and anc is not lp.ast:
            if not isinstance(anc, (ast.If, ast.For, ast.While)):
                raise AnalysisError(f"the loop over the members is left by `{short(x.ast, 30)}` inside `{type(anc).__name__.lower()}` (unrecognised form)")
            anc = getattr(anc, "_parent", None)
        deps = cfg.control_deps(x.id)
        inner = deps[:[b for b, _ in deps].index(lp.id)]
        if not inner:
            out.append((x, "always"))
            continue
        b, lab = inner[0]
        t = cfg.nodes[b].ast.test if len(inner) == 1 and isinstance(cfg.nodes[b].ast, ast.If) and lab in (True, False) else None
        while isinstance(t, ast.UnaryOp) and isinstance(t.op, ast.Not):
            t, lab = t.operand, not lab
        if isinstance(t, ast.Call) and isinstance(t.func, ast.Name) and t.func.id == "bool" and len(t.args) == 1 and not t.keywords:
            t = t.args[0]
        if isinstance(t, ast.Name):
            ds = cfg.defs_of(b, t.id)
            t = ds[0].value if len(ds) == 1 and ds[0].kind == "assign" and not ds[0].path and ds[0].node == call_node.id else None
        if t is not call:
            raise AnalysisError(f"the loop over the members is left by `{short(x.ast, 30)}` under a condition that is not the member's result (unrecognised form)")
        out.append((x, "truthy" if lab else "falsy"))
    return out


def _call_short_circuit(cfg, lp, n, c):
    """None when the member call ``c`` is evaluated whenever its statement (node n, in the member loop lp) is; 'truthy' / 'falsy' when
    it is the right operand of `acc or <call>` / `acc and <call>` with acc accumulating the members' results (initialised with a false /
    true constant before the loop): the call is skipped once a member returned a true / false value.  Other conditional positions
    (conditional expressions, lambdas, other operands) are undecided."""
    mode, x, par = None, c, getattr(c, "_parent", None)
    while par is not None and not isinstance(par, ast.stmt):
        if isinstance(par, ast.BoolOp) and par.values[0] is not x:
            left = par.values[:[i for i, v in enumerate(par.values) if v is x][0]]
            want_init = 0 if isinstance(par.op, ast.Or) else 1
            for a in left:
                ds = cfg.defs_of(n.id, a.id) if isinstance(a, ast.Name) else []
                own = [d for d in ds if d.node == n.id]
                init = [d for d in ds if d.node != n.id]
                if not own or len(init) != 1 or init[0].kind != "assign" or init[0].path or lp.id in cfg.enclosing_loops(init[0].node) \
                        or not (isinstance(init[0].value, ast.Constant) and isinstance(init[0].value.value, (bool, int)) and bool(init[0].value.value) == bool(want_init)):
                    raise AnalysisError(f"the member call is the right operand of `{short(par, 50)}` (unrecognised form)")
            if mode is not None:
                raise AnalysisError(f"the member call is nested in several boolean operations (unrecognised form)")
            mode = "truthy" if isinstance(par.op, ast.Or) else "falsy"
        elif (isinstance(par, ast.IfExp) and par.test is not x) or isinstance(par, (ast.Lambda, ast.ListComp, ast.SetComp, ast.DictComp, ast.GeneratorExp)):
            raise AnalysisError(f"the member call is evaluated conditionally in `{short(par, 50)}` (unrecognised form)")
        x, par = par, getattr(par, "_parent", None)
    if mode is not None:
        st = par
        tg = st.targets if isinstance(st, ast.Assign) else [st.target] if isinstance(st, (ast.AnnAssign, ast.AugAssign)) else []
        if not (len(tg) == 1 and isinstance(tg[0], ast.Name)):
            raise AnalysisError(f"the member call is the right operand of a boolean operation in `{short(st, 50)}` (unrecognised form)")
    return mode


def _signature_compatible(fn, bm, site):
    """None when every call that LoggerBase.<m> accepts binds the same way in the override, else the reason.  Undecided for * / **."""
    a, b = fn.args, bm.args
    if a.vararg or a.kwarg or b.vararg or b.kwarg:
        raise AnalysisError(f"{site}: variadic signature (unrecognised form)")
    pos, bpos = [x.arg for x in a.posonlyargs + a.args][1:], [x.arg for x in b.posonlyargs + b.args][1:]
    if pos[:len(bpos)] != bpos:
        return f"positional parameters ({', '.join(pos)}) differ from LoggerBase.{bm.name}({', '.join(bpos)})"
    n_required = len(a.posonlyargs + a.args) - len(a.defaults) - 1
    if n_required > len(bpos):
        return f"additional required parameter {pos[len(bpos):n_required]}"
    kwo, bkwo = {x.arg: d for x, d in zip(a.kwonlyargs, a.kw_defaults)}, [x.arg for x in b.kwonlyargs]
    if any(k not in kwo for k in bkwo):
        return f"keyword-only parameter(s) {[k for k in bkwo if k not in kwo]} of LoggerBase.{bm.name} missing"
    if any(d is None for k, d in kwo.items() if k not in bkwo):
        return f"additional required keyword-only parameter(s) {[k for k, d in kwo.items() if k not in bkwo and d is None]}"
    return None


def _fan_out(ck, repo, nf):
    base = repo.cls(BASE)
    ll = repo.cls(LG + "LoggerList")
    base_methods = {m.name: m for m in _public_methods(base)}
    ck.floor("logger-interface-methods", len(base_methods), 7)
    spec = {(q, p) for q, p, _ in getattr(repo, "specialised", None) or []}
    for name, bm in sorted(base_methods.items()):
        m = repo.method(LG + "LoggerList", name)   # own, or inherited from a mixin between LoggerList and the interface
        site = f"{LG}LoggerList.{name}"
        if m is None or m[0] == BASE:
            ck.ob("R1-fan-out", site, "overridden", False, f"LoggerBase.{name}", "LoggerList does not forward this interface method: members never receive it", loc(ll._module, ll))
            continue
        fn = m[1]
        mi = fn._module = repo.cls(m[0])._module
        is_prop = any(dotted(d) == "property" for d in fn.decorator_list)
        cfg = nf.cfg_of(fn)
        if is_prop:
            rets = [n for n in cfg.nodes if n.kind == "stmt" and isinstance(n.ast, ast.Return) and n.ast.value is not None]
            vals = sorted({nf.poly(r.ast.value, Scope(cfg, mi, {}, site), r.id).canon() for r in rets})
            good = [v for v in vals if v.startswith("self.loggers[") and v.endswith(f"].{name}") and ":" not in v]
            ok = bool(vals) and len(good) == len(vals)
            if not ok and (not vals or not all(v in good or _built_from(v, ()) for v in vals)):     # evidence: a value that involves no member at all (a constant)
                raise AnalysisError(f"{site}: the reported value `{vals[:2]}` is not read (unrecognised form)")
            ck.ob("R1-fan-out", site, "property-of-first-member", ok, f"return {vals}", "" if ok else "must report the (identical) value of a member", loc(mi, fn))
            continue
        why = _signature_compatible(fn, bm, site)
        params = [p for p in param_names(fn) if p != "self"]
        # (an option added after the recorded signatures is read at its default by the specialise pass: its name is a constant in the body)
        bparams = [p for p in param_names(bm) if p != "self" and (f"{BASE}.{name}", p) not in spec]
        ck.ob("R1-fan-out", site, "signature", why is None, f"({', '.join(params)})", why or "", loc(mi, fn))
        if why is not None:
            continue
        # the member calls: <loop variable over self.loggers>.<name>(...)
        loops = [n for n in cfg.nodes if n.kind == "for"]
        kinds = {n.id: _members_iter(nf, cfg, mi, site, n) for n in loops}
        if any(kinds[n.id] and not isinstance(n.ast.target, ast.Name) for n in loops):
            raise AnalysisError(f"{site}: the loop over the members unpacks its items (unrecognised form)")
        mloops = [n for n in loops if kinds[n.id]]
        calls = stmt_calls(cfg, lambda c: isinstance(c.func, ast.Attribute) and c.func.attr == name and isinstance(c.func.value, ast.Name))
        in_loop = lambda n, c, lp: c.func.value.id == lp.ast.target.id and lp.id in cfg.enclosing_loops(n.id)
        calls_all = [(n, c) for n, c in calls if any(in_loop(n, c, lp) for lp in mloops if kinds[lp.id] == "all")]
        calls_part = [(n, c) for n, c in calls if any(in_loop(n, c, lp) for lp in mloops if kinds[lp.id] == "part")]
        comps = _member_comprehensions(nf, cfg, mi, site, name)
        if comps and (calls_all or calls_part or len(comps) != 1):
            raise AnalysisError(f"{site}: members are called from several loops / comprehensions (unrecognised idiom)")
        if not calls_all and not calls_part and not comps:
            if any(isinstance(x, (ast.Call, ast.For, ast.While, ast.ListComp, ast.GeneratorExp, ast.Lambda)) for x in ast.walk(fn)) or _mentions(fn, ("loggers",)):
                raise AnalysisError(f"{site}: members are not reached through a loop over self.loggers (unrecognised idiom)")
            ck.ob("R1-fan-out", site, "loop-over-all-members", False, "the method calls nothing", "the method does not reach the members", loc(mi, fn))
            continue
        if calls_part and calls_all:
            raise AnalysisError(f"{site}: members are called from several loops (unrecognised idiom)")
        if comps:
            n, comp, c, kind, consumer = comps[0]
            g = comp.generators[0]
            shown = f"{consumer + '(' if consumer in ('any', 'all') else ''}.{name}(...) for {g.target.id} in {short(g.iter, 40)}{')' if consumer in ('any', 'all') else ''}"
            okl = kind == "all"
            ck.ob("R1-fan-out", site, "loop-over-all-members", okl, shown, "" if okl else "the comprehension does not range over all of self.loggers: some members never receive the record", loc(mi, fn))
            if not okl:
                continue
            okd, how = (True, "the comprehension is evaluated for every member") if consumer == "eager" else _stops_early(repo, nf, site, name, "truthy" if consumer == "any" else "falsy")
            ck.ob("R1-fan-out", site, "every-member-reached", okd, f"{shown}: {how}", "" if okd else f"`{consumer}` over a generator stops at the first {'true' if consumer == 'any' else 'false'} item: the members after it do not receive the call", loc(mi, comp))
            if not okd:
                continue
        else:
            lp = next(l for l in mloops if in_loop(*(calls_all + calls_part)[0], l))
            shown = f"for {lp.ast.target.id} in {short(lp.ast.iter, 40)}: .{name}(...)"
            if calls_part:
                ck.ob("R1-fan-out", site, "loop-over-all-members", False, shown, "the loop does not range over all of self.loggers: some members never receive the record", loc(mi, fn))
                continue
            if any(len(cfg.control_deps(n.id)) != 1 for n, c in calls_all) or cfg.control_deps(lp.id):
                raise AnalysisError(f"{site}: the member call is conditional or nested (unrecognised idiom)")
            okl = len(calls_all) == 1    # several unconditional calls in loops over all members: a member receives the record more than once
            ck.ob("R1-fan-out", site, "loop-over-all-members", okl, shown, "" if okl else "every member must receive the call exactly once", loc(mi, fn))
            if not okl:
                continue
            n, c = calls_all[0]
            # the loop is not left before the last member: a break / return in its body is a path on which the later members are skipped
            try:
                exits = [(x.ast, mode) for x, mode in _loop_exits(cfg, lp, n, c)]
                sc_mode = _call_short_circuit(cfg, lp, n, c)
            except AnalysisError as e:
                raise AnalysisError(f"{site}: {e}")
            if sc_mode is not None:
                exits.append((n.ast, sc_mode))     # the call itself is skipped from then on
            okd, how, at = True, "no break / return in the loop, the call is evaluated in every iteration", lp.ast
            for xa, mode in exits:
                okx, hx = (False, "left unconditionally after the first member") if mode == "always" else _stops_early(repo, nf, site, name, mode)
                if not okx or okd:
                    how, at = f"`{short(xa, 40)}`: {hx}", xa
                okd = okd and okx
            ck.ob("R1-fan-out", site, "every-member-reached", okd, f"{shown}; {how}", "" if okd else "the loop over the members is left early: the members after that point do not receive the call", loc(mi, at))
            if not okd:
                continue
        if any(isinstance(a_, ast.Starred) for a_ in c.args) or any(k.arg is None for k in c.keywords):
            raise AnalysisError(f"{site}: `{short(c, 60)}` forwards packed arguments (unrecognised form)")
        try:
            b = bind_call(bm, c, skip_self=True)
        except Exception:
            raise AnalysisError(f"{site}: cannot bind `{short(c, 60)}` to LoggerBase.{name}")
        sc = Scope(cfg, mi, {p: Poly.atom(p, {p}, {p}) for p in params}, site)
        # every member receives the call's own arguments: each forwarded value is the parameter itself, with no other definition of that
        # name reaching the member call (a location resolved before the fan-out replaces the caller's None)
        got, unread = {}, []
        for p in bparams:
            a_ = b.get(p)
            if a_ is None or isinstance(a_, list):
                got[p] = "<not passed>"
                continue
            v = nf.poly(a_, sc, n.id).canon()
            ds_ = cfg.defs_of(n.id, a_.id) if isinstance(a_, ast.Name) else []
            if v == p:
                got[p] = p
            elif isinstance(a_, ast.Name) and a_.id == p and any(d_.kind != "param" for d_ in ds_):
                got[p] = f"{p} (reassigned at line(s) {sorted({cfg.nodes[d_.node].lineno for d_ in ds_ if d_.kind != 'param'})})"
            else:
                got[p] = v
                if _unread(v) or not _built_from(v, params):
                    unread.append(v)
        okf = all(got[p] == p for p in bparams)
        if not okf and unread and all(got[p] == p or got[p] in unread for p in bparams):
            raise AnalysisError(f"{site}: forwarded value `{unread[0][:80]}` is not read (unrecognised form)")
        ck.ob("R1-fan-out", site, "forwards-all-arguments", okf, f"{name}({', '.join(f'{p}={got[p]}' for p in bparams)})",
              "" if okf else f"every member must receive the identical record: each of ({', '.join(bparams)}) forwarded unchanged to the parameter of the same name", loc(mi, c))


# ---------------------------------------------------------------------------------------------------------------------------
_READ_METHODS = {"get", "keys", "values", "items", "index", "count", "copy"}
_PURE_FUNCS = {"len", "str", "repr", "format", "print", "list", "tuple", "sorted", "isinstance", "bool", "any", "all", "min", "max", "sum"}


def _reads_only(tree, is_c, elements_immutable=False) -> bool:
    """No mention (``is_c``) of a container in ``tree`` can change it or let it escape: element reads, membership / comparisons,
    arithmetic, formatting, read-only methods, arguments of pure builtins.  With ``elements_immutable`` (containers of numbers) an
    element may also be bound to a name or passed to any call."""
    par = {}
    for p in ast.walk(tree):
        for ch in ast.iter_child_nodes(p):
            par[id(ch)] = p
    for x in ast.walk(tree):
        if not is_c(x):
            continue
        if not isinstance(getattr(x, "ctx", None), ast.Load):
            return False
        cur, p = x, par.get(id(x))
        while isinstance(p, ast.Subscript) and p.value is cur:
            if not isinstance(p.ctx, ast.Load):
                return False
            cur, p = p, par.get(id(p))
        if p is None or isinstance(p, (ast.Compare, ast.BoolOp, ast.UnaryOp, ast.BinOp, ast.FormattedValue, ast.IfExp, ast.Assert)) or (isinstance(p, ast.Subscript) and p.slice is cur):
            continue
        if isinstance(p, ast.Attribute) and p.value is cur:
            g = par.get(id(p))
            if isinstance(g, ast.Call) and g.func is p and p.attr in _READ_METHODS:
                continue
            return False
        if isinstance(p, ast.Call) and cur is not p.func and isinstance(p.func, ast.Name) and p.func.id in _PURE_FUNCS:
            continue
        if elements_immutable and cur is not x and not isinstance(cur.slice, ast.Slice) and ((isinstance(p, (ast.Call, ast.keyword)) and cur is not getattr(p, "func", None)) or (isinstance(p, (ast.Assign, ast.AnnAssign)) and p.value is cur) or isinstance(p, (ast.Tuple, ast.List, ast.Return))):
            continue
        return False
    return True


def _container_events(cfg, attrs, kp, site):
    """{node id: [(attr, index expression, appended value expression)]} for the statements that grow self.<attr>[<key>] by one element,
    in the forms  self.a[k].append(v) / self.a.setdefault(k, []).append(v) / self.a[k] += [v] / self.a[k] = self.a[k] + [v]  (the
    container possibly through a local alias).  Every other statement that touches self.<attr> must be a creation of the empty entry,
    an alias definition or a read; anything else (the container escapes, another mutating method) is undecided."""
    events, aliases = {}, {}

    def is_empty(v):
        return (isinstance(v, (ast.List, ast.Tuple)) and not v.elts) or (isinstance(v, ast.Call) and isinstance(v.func, ast.Name) and v.func.id == "list" and not v.args and not v.keywords)

    def location(e, nid, depth=0):
        """(attr, index expr) when e denotes the list stored at self.<attr>[index]: the subscript, `setdefault(index, [])`, `get(index)`
        (the entry when it exists), or a local name every reaching definition of which denotes that same entry (`x = self.a[k]`,
        `x = self.a.get(k)`, and the creation `x = self.a[k] = []`, which binds the name to the list it stores)."""
        if isinstance(e, ast.Name) and depth < 4:
            found = []
            for d in cfg.defs_of(nid, e.id):
                if d.kind != "assign" or d.path or d.value is None:
                    return None
                st = cfg.nodes[d.node].ast
                if isinstance(st, ast.Assign) and len(st.targets) > 1:
                    subs = [t for t in st.targets if not isinstance(t, ast.Name)]
                    if not (is_empty(st.value) and len(subs) == 1 and isinstance(subs[0], ast.Subscript)):
                        return None
                    where = location(subs[0], d.node, depth + 1)
                else:
                    where = location(d.value, d.node, depth + 1)
                if where is None:
                    return None
                found.append(where)
            if found and all(w[0] == found[0][0] and ast.dump(w[1]) == ast.dump(found[0][1]) for w in found):
                return found[0]
            return None
        at = nid
        if isinstance(e, ast.Subscript) and not isinstance(e.slice, ast.Slice):
            b, _ = _alias_value(cfg, at, e.value)
            if _self_attr(b, attrs):
                return b.attr, e.slice
        if isinstance(e, ast.Call) and isinstance(e.func, ast.Attribute) and e.func.attr == "setdefault" and len(e.args) == 2 and not e.keywords:
            b, _ = _alias_value(cfg, at, e.func.value)
            if _self_attr(b, attrs) and is_empty(e.args[1]):
                return b.attr, e.args[0]
        if isinstance(e, ast.Call) and isinstance(e.func, ast.Attribute) and e.func.attr == "get" and not e.keywords and (len(e.args) == 1 or (len(e.args) == 2 and isinstance(e.args[1], ast.Constant) and e.args[1].value is None)):
            b, _ = _alias_value(cfg, at, e.func.value)
            if _self_attr(b, attrs):
                return b.attr, e.args[0]
        return None

    def one_elem(v):
        return v.elts[0] if isinstance(v, ast.List) and len(v.elts) == 1 and not isinstance(v.elts[0], ast.Starred) else None

    for n in cfg.nodes:
        s = n.ast
        if s is None or n.kind in ("entry", "exit"):
            continue
        root = s.test if n.kind == "test" and hasattr(s, "test") else s.iter if n.kind == "for" else s
        if n.kind == "with":
            root = ast.Tuple(elts=[i.context_expr for i in s.items], ctx=ast.Load())
        elif isinstance(s, ast.ExceptHandler):
            continue
        if n.kind == "def":
            if _mentions(s, attrs):
                raise AnalysisError(f"{site}: the recorded containers are used in a nested function (unrecognised form)")
            continue
        names = {x.id for x in ast.walk(root) if isinstance(x, ast.Name) and (isinstance(x.ctx, ast.Load) or (isinstance(s, ast.AugAssign) and x is s.target)) and x.id in aliases}
        if not _mentions(root, attrs) and not names:
            continue
        is_c = lambda x: _self_attr(x, attrs) or (isinstance(x, ast.Name) and x.id in aliases and isinstance(x.ctx, ast.Load))
        ev = None
        if n.kind == "stmt" and isinstance(s, ast.Expr) and isinstance(s.value, ast.Call) and isinstance(s.value.func, ast.Attribute) and s.value.func.attr == "append" and len(s.value.args) == 1 and not s.value.keywords:
            where = location(s.value.func.value, n.id)
            if where is not None and _reads_only(s.value.args[0], is_c) and _reads_only(where[1], is_c):
                ev = (where[0], where[1], s.value.args[0])
        elif n.kind == "stmt" and isinstance(s, ast.AugAssign) and isinstance(s.op, ast.Add) and one_elem(s.value) is not None:
            where = location(s.target, n.id)
            if where is not None and _reads_only(s.value, is_c):
                ev = (where[0], where[1], one_elem(s.value))
        elif n.kind == "stmt" and isinstance(s, ast.Assign) and len(s.targets) == 1 and isinstance(s.targets[0], ast.Subscript):
            where = location(s.targets[0], n.id)
            v = s.value
            if where is not None and isinstance(v, ast.BinOp) and isinstance(v.op, ast.Add) and one_elem(v.right) is not None and location(v.left, n.id) is not None \
                    and location(v.left, n.id)[0] == where[0] and ast.dump(location(v.left, n.id)[1]) == ast.dump(where[1]) and _reads_only(v.right, is_c):
                ev = (where[0], where[1], one_elem(v.right))
            elif where is not None and ((isinstance(v, (ast.List, ast.Tuple)) and not v.elts) or (isinstance(v, ast.Call) and isinstance(v.func, ast.Name) and v.func.id == "list" and not v.args and not v.keywords)):
                continue   # creation of the empty entry
        elif n.kind == "stmt" and isinstance(s, ast.Assign) and len(s.targets) == 1 and isinstance(s.targets[0], ast.Name) and location(s.value, n.id) is not None:
            aliases[s.targets[0].id] = n.id   # series = self.stats[key]
            continue
        elif n.kind == "stmt" and isinstance(s, ast.Assign) and len(s.targets) > 1 and is_empty(s.value) and sum(isinstance(t, ast.Subscript) and location(t, n.id) is not None for t in s.targets) == 1 \
                and all(isinstance(t, ast.Name) or (isinstance(t, ast.Subscript) and location(t, n.id) is not None) for t in s.targets):
            for t in s.targets:
                if isinstance(t, ast.Name):
                    aliases[t.id] = n.id      # series = self.stats[key] = []: creation of the empty entry, bound to a local name as well
            continue
        elif n.kind == "stmt" and isinstance(s, ast.Expr) and isinstance(s.value, ast.Call) and isinstance(s.value.func, ast.Attribute) and s.value.func.attr == "setdefault" and location(s.value, n.id) is not None:
            continue   # self.stats.setdefault(key, []) for its effect: creation of the empty entry
        if ev is not None:
            events.setdefault(n.id, []).append(ev)
            if cfg.enclosing_loops(n.id):
                raise AnalysisError(f"{site}: `{short(s, 60)}` records inside a loop (unrecognised form)")
            continue
        if not _reads_only(root, is_c):
            raise AnalysisError(f"{site}: `{short(root, 70)}` uses the recorded containers in a way that is not read (unrecognised form)")
    return events


def _x_key_tables(repo, g, cq):
    """Displays of three distinct strings naming the x axes (must contain "episode" and "step") that get_stat can see: in its body, or
    bound at module / class level to a name it reads."""
    def table(e):
        if isinstance(e, (ast.List, ast.Tuple)) and len(e.elts) == 3 and all(isinstance(x, ast.Constant) and isinstance(x.value, str) for x in e.elts):
            vals = [x.value for x in e.elts]
            if len(set(vals)) == 3 and {"episode", "step"} <= set(vals):
                return vals
        return None
    out = [(table(n), n, g._module) for n in ast.walk(g) if table(n)]
    mi = g._module
    for x in ast.walk(g):
        bound = None
        if isinstance(x, ast.Name) and isinstance(x.ctx, ast.Load) and isinstance(mi.defs.get(x.id), (ast.Assign, ast.AnnAssign)):
            bound = [(mi.defs[x.id], mi)]
        elif isinstance(x, ast.Attribute) and isinstance(x.value, ast.Name):
            bound = []
            for c in repo.mro(cq):
                cls = repo.cls(c)
                if x.value.id in ("self", "cls", cls.name):
                    bound += [(st, cls._module) for st in cls.body if isinstance(st, (ast.Assign, ast.AnnAssign)) and any(isinstance(t, ast.Name) and t.id == x.attr for t in (st.targets if isinstance(st, ast.Assign) else [st.target]))]
        for st, m2 in bound or []:
            if st.value is not None and table(st.value):
                out.append((table(st.value), st.value, m2))
    return out


def _record_get(ck, repo, nf):
    for cq in (LG + "MemoryLogger", LG + "StandardLogger"):
        fn = _mi(repo, cq, "record_stat")
        mi = fn._module
        cfg = nf.cfg_of(fn)
        names = param_names(fn)
        site = f"{cq}.record_stat"
        if len(names) < 6 or fn.args.vararg or fn.args.kwarg:
            raise AnalysisError(f"{site}: signature ({', '.join(names)}) is not (self, key, value, episode, step, t, ...) (unrecognised form)")
        kp, vp, ep, sp, tp = names[1:6]   # roles by position in the signature
        env = {p: Poly.atom(p, {p}, {p}) for p in names}
        events = _container_events(cfg, ("stats", "stats_loc"), kp, site)
        if not any(a == "stats" for evs in events.values() for a, _, _ in evs) or not any(a == "stats_loc" for evs in events.values() for a, _, _ in evs):
            raise AnalysisError(f"{site}: no statement that appends to self.stats[{kp}] / self.stats_loc[{kp}] found (unrecognised form)")

        def before(pe, nid):
            for a, k_, v_ in events.get(nid, []):
                kc = pe.ev(k_).canon()
                if kc != kp:
                    raise AnalysisError(f"{site}: records under `{kc[:60]}`, not under the key parameter (unrecognised form)")
                pe.grown.append((a, pe.ev(v_)))
        res = _paths_lits(nf, cfg, mi, site, env, before=before)
        LOC = {ep, sp, tp, "_n_episodes", "n_steps"}
        bad_count, bad_tuple, bad_default, forms, unread = [], [], [], set(), []
        for pe, lits, pth in res:
            vals = [v for a, v in pe.grown if a == "stats"]
            locs = [v for a, v in pe.grown if a == "stats_loc"]
            if len(vals) != 1 or len(locs) != 1:
                bad_count.append((f"{len(vals)} value(s)", f"{len(locs)} location(s)"))   # every statement touching the containers was read: a path witness
                continue
            v0 = vals[0].canon()
            if v0 != vp:
                if _unread(v0) or not _built_from(v0, set(names) | LOC):
                    unread.append(f"recorded value `{v0[:80]}`")
                else:
                    bad_count.append((v0, "instead of the value"))
                continue
            lt = locs[0]
            if lt.elems is None or len(lt.elems) != 3:
                raise AnalysisError(f"{site}: recorded location `{lt.canon()[:80]}` is not a 3-tuple (unrecognised idiom)")
            e_, s_, t_ = (x.canon() for x in lt.elems)
            forms.add((e_, s_, t_[:40]))
            e_ = "self._n_episodes".join(e_.split("self.n_episodes"))     # the property n_episodes reports _n_episodes
            for got, par, attr in ((e_, ep, "self._n_episodes"), (s_, sp, "self.n_steps")):
                NONE = {f"Is(None, {par})", f"Is({par}, None)"}
                NOT_NONE = {f"IsNot(None, {par})", f"IsNot({par}, None)", f"not(Is(None, {par}))", f"not(Is({par}, None))"}
                is_none = any(l in NONE for l in lits)
                not_none = any(l in NOT_NONE for l in lits)
                ite_ok = {f"ite(Is(None, {par}), {attr}, {par})", f"ite(Is({par}, None), {attr}, {par})", f"ite(IsNot(None, {par}), {par}, {attr})", f"ite(IsNot({par}, None), {par}, {attr})"}
                if got in ite_ok or (is_none and got == attr) or (not_none and got == par):
                    continue
                other_tests = [l for l in lits if par in _toks(l) and l not in NONE | NOT_NONE]
                if _unread(got):
                    unread.append(f"{par} recorded as `{got[:80]}`")
                elif got in (par, attr) and (is_none or not_none):
                    bad_default.append((par, got, "None" if is_none else "given"))   # contradicts the None test of this very path
                elif got in (par, attr) and other_tests:
                    unread.append(f"{par} recorded as `{got}` under {other_tests[:2]}")
                elif _built_from(got, {par, attr.split('.')[1]}):
                    # the role is right but the defaulting rule is another one (`x or default` treats 0 as missing; no None test on this path)
                    bad_default.append((par, got, "?"))
                elif _built_from(got, LOC):
                    bad_tuple.append((par, got))    # another documented quantity in this slot
                else:
                    unread.append(f"{par} recorded as `{got[:80]}`")
            if _unread(t_):
                unread.append(f"time recorded as `{t_[:80]}`")
            elif tp not in _toks(t_) and _built_from(t_, LOC - {tp}):
                bad_tuple.append((tp, t_))      # built from the episode / step quantities only
        if unread and not (bad_count or bad_tuple or bad_default):
            raise AnalysisError(f"{site}: {unread[0]} is not read (unrecognised form)")
        ck.ob("R2-record-get", site, "appends-once-per-path", not bad_count, f"{len(res)} paths", "" if not bad_count else f"some path records nothing, twice or another value: {bad_count[:1]}", loc(mi, fn))
        ck.ob("R2-record-get", site, "location-tuple", not bad_tuple, f"{sorted(forms)[:3]}", "" if not bad_tuple else f"the location must be (episode, step, time) in this order; got {bad_tuple[:2]}", loc(mi, fn))
        ck.ob("R2-record-get", site, "defaults", not bad_default, "episode <- _n_episodes, step <- n_steps exactly when omitted (None)", "" if not bad_default else f"an explicitly given episode / step (including 0) must be recorded as given, an omitted one must default to the logger's counter: {bad_default[:2]}", loc(mi, fn))
        # get_stat: the x-axis value of a record is the element of the location tuple named by x_key, in recording order
        g = _mi(repo, cq, "get_stat")
        tables = _x_key_tables(repo, g, cq)
        if not tables:
            raise AnalysisError(f"{cq}.get_stat: table of x keys not found (unrecognised idiom)")
        wrong = [t for t in tables if t[0][:2] != ["episode", "step"]]
        order, at, m2 = (wrong or tables)[0]
        ck.ob("R2-record-get", f"{cq}.get_stat", "key-table-matches-tuple-order", not wrong, f"x keys {order} index the recorded (episode, step, t)", "" if not wrong else "get_stat must index the location tuple in the order it was recorded", loc(m2, at))
        # the selection reads self.stats_loc[key] element-wise with that index and self.stats[key] unchanged
        if not _mentions(g, ("stats_loc",)) or not _mentions(g, ("stats",)):
            raise AnalysisError(f"{cq}.get_stat: recorded containers are not read directly (unrecognised idiom)")


# ---------------------------------------------------------------------------------------------------------------------------
def _class_methods(repo, cq):
    """[(owner class, FunctionDef)] of the methods a class has, own or inherited from repository classes below the interface, in MRO
    order (a shadowed definition is listed too: it may be reached through super())."""
    out = []
    for c in repo.mro(cq):
        if c == BASE:
            continue
        cls = repo.cls(c)
        for st in cls.body:
            if isinstance(st, ast.FunctionDef):
                st._module = cls._module
                out.append((c, st))
    return out


def _super_delegate(nf, fn, later):
    """The next definition of the method (``later``: the definitions after this one in the MRO) when ``fn`` hands its own parameters
    to super().<same method>(...) exactly once on every path; else None."""
    cfg = nf.cfg_of(fn)
    sup = stmt_calls(cfg, lambda c: isinstance(c.func, ast.Attribute) and c.func.attr == fn.name and isinstance(c.func.value, ast.Call) and isinstance(c.func.value.func, ast.Name) and c.func.value.func.id == "super" and not c.func.value.args)
    if len(sup) != 1 or not later or not on_every_path_once(cfg, [sup[0][0].id]):
        return None
    n, c = sup[0]
    nxt = later[0][1]
    if any(isinstance(a_, ast.Starred) for a_ in c.args) or any(k.arg is None for k in c.keywords):
        return None
    b = bind_call(nxt, c, skip_self=True)
    own, theirs = positional_params(fn)[1:], positional_params(nxt)[1:]
    sc = Scope(cfg, fn._module, {}, fn.name)
    for i, p in enumerate(theirs):
        if i >= len(own) or p not in b or nf.poly(b[p], sc, n.id).canon() != own[i]:
            return None
    return later[0]


def _counters(ck, repo, nf):
    loggers = [LG + x for x in ("StandardLogger", "MemoryLogger", "StdoutLogger", "AIMLogger")] + [OC]
    transparent = repo.transparent_helpers()
    iface = {m.name for m in _public_methods(repo.cls(BASE))}
    COUNTERS = {"self._n_episodes": "start_new_episode", "self.n_steps": "stop_episode"}
    WHY = {"start_new_episode": "the episode counter may only be advanced by one in start_new_episode", "stop_episode": "the step counter may only be advanced by the episode's step count in stop_episode"}
    for cq in loggers:
        methods = _class_methods(repo, cq)
        names = {fn.name for _, fn in methods}
        # private helpers act on behalf of the methods that call them
        callers = {}
        for oc, fn in methods:
            for x in ast.walk(fn):
                if isinstance(x, ast.Call) and isinstance(x.func, ast.Attribute) and isinstance(x.func.value, ast.Name) and x.func.value.id == "self" and x.func.attr in names:
                    callers.setdefault(x.func.attr, set()).add(fn.name)

        def roles(nm, seen=()):
            if nm in iface or (nm.startswith("__") and nm.endswith("__")):
                return {nm}
            out = set()
            for c in callers.get(nm, ()):
                if c not in seen:
                    out |= roles(c, seen + (nm,))
            return out
        for oc, meth in methods:
            nm = meth.name
            if f"{oc}.{nm}" in transparent:
                continue    # every call of this helper was expanded into its callers: read there
            mi = meth._module
            cfg = nf.cfg_of(meth)
            for n in cfg.nodes:
                if n.kind != "stmt" or not isinstance(n.ast, (ast.Assign, ast.AugAssign)):
                    continue
                if isinstance(n.ast, ast.Assign) and any(isinstance(t, (ast.Tuple, ast.List)) and any(dotted(e) in COUNTERS for e in t.elts) for t in n.ast.targets):
                    if roles(nm) == {"__init__"} and isinstance(n.ast.value, (ast.Tuple, ast.List)) and all(isinstance(e, ast.Constant) and e.value == 0 for e in n.ast.value.elts):
                        continue
                    raise AnalysisError(f"{cq}.{nm}: `{short(n.ast, 60)}` writes a counter through a tuple assignment (unrecognised form)")
                for t in (n.ast.targets if isinstance(n.ast, ast.Assign) else [n.ast.target]):
                    d = dotted(t)
                    if d not in COUNTERS:
                        continue
                    sc = Scope(cfg, mi, {}, f"{cq}.{nm}")
                    newv = nf.poly(n.ast.value, sc, n.id) if isinstance(n.ast, ast.Assign) else nf._binop_polys(Poly.atom(d, {d}, {d}), nf.poly(n.ast.value, sc, n.id), n.ast.op)
                    nv = newv.canon()
                    tp = [p for p in positional_params(meth) if p != "self"]
                    owner = COUNTERS[d]
                    rl = roles(nm)
                    short_d = d.split(".")[1]
                    if rl == {"__init__"}:
                        ok, why = nv == "0", "the counter must start at 0"
                        if not ok and not newv.is_const():
                            raise AnalysisError(f"{cq}.{nm}: initial value `{nv[:60]}` of {short_d} is not read (unrecognised form)")
                    elif rl == {owner}:
                        if owner == "stop_episode" and (nm != owner or not tp):
                            raise AnalysisError(f"{cq}.{nm}: the step counter is advanced by a helper of stop_episode (unrecognised form)")
                        want = "1 + self._n_episodes" if owner == "start_new_episode" else nf.poly(parse_expr(f"self.n_steps + {tp[0]}"), Scope(None, mi, {}, cq), None).canon()
                        ok, why = nv == want, WHY[owner]
                        if not ok and (_unread(nv) or not _built_from(nv, _toks(want))):
                            raise AnalysisError(f"{cq}.{nm}: new value `{nv[:60]}` of {short_d} is not read (unrecognised form)")
                    elif rl and rl <= iface | {"__init__"}:
                        ok, why = False, WHY[owner]    # written on behalf of another interface method: positive evidence of a second owner
                    else:
                        raise AnalysisError(f"{cq}.{nm}: writes {short_d}, but it is not known on behalf of which interface method (unrecognised form)")
                    ck.ob("R3-counters", f"{cq}.{nm}", f"writes:{short_d}", ok, f"{short_d}' = {nv}", "" if ok else why, loc(mi, n.ast))
        for meth, attr in (("start_new_episode", "self._n_episodes"), ("stop_episode", "self.n_steps")):
            defs_ = [(oc, fn) for oc, fn in methods if fn.name == meth]
            if not defs_:
                raise AnalysisError(f"{cq}.{meth} not found")
            while True:
                fn = defs_[0][1]
                cfg = nf.cfg_of(fn)
                ws = [n for n in cfg.nodes if n.kind == "stmt" and isinstance(n.ast, (ast.Assign, ast.AugAssign)) and any(dotted(t) == attr for t in (n.ast.targets if isinstance(n.ast, ast.Assign) else [n.ast.target]))]
                nxt = None if ws else _super_delegate(nf, fn, defs_[1:])
                if nxt is None:
                    break
                defs_ = defs_[1:]     # super().<method>(<own parameters>) on every path: the next definition does the counting
            if not ws and any(isinstance(x, (ast.Call, ast.Assign, ast.AugAssign, ast.AnnAssign)) for x in ast.walk(fn)):
                raise AnalysisError(f"{cq}.{meth}: no statement that advances {attr} found (unrecognised form)")
            if any(cfg.enclosing_loops(w.id) for w in ws):
                raise AnalysisError(f"{cq}.{meth}: {attr} is advanced in a loop (unrecognised form)")
            ok = bool(ws) and on_every_path_once(cfg, [w.id for w in ws])   # not ok: the body does nothing, a path avoids the write, or a path writes twice
            ck.ob("R3-counters", f"{cq}.{meth}", "advances-counter", ok, f"{[short(n.ast) for n in ws]}", "" if ok else f"must advance {attr} exactly once on every path", loc(fn._module, fn))


def _instance_state(ck, repo):
    """Records live in per-instance containers: a mutable container that the methods grow / index through `self` must be created for
    each instance (bound in a method, normally __init__).  A dict / list literal bound only in the class body is one object shared by
    every instance, so one logger would return what another recorded."""
    n = 0

    def flat(t):
        return [x for e in t.elts for x in flat(e)] if isinstance(t, (ast.Tuple, ast.List)) else [t.value] if isinstance(t, ast.Starred) else [t]
    for cq in [LG + x for x in ("StandardLogger", "MemoryLogger", "StdoutLogger", "AIMLogger", "LoggerList")] + [OC]:
        cls = repo.cls(cq)
        mi = cls._module
        chain = [repo.cls(c) for c in repo.mro(cq) if c.startswith(repo.PKG)]
        class_level = {}
        bound_in_method, mutated = set(), {}
        for c in chain:
            for st in c.body:
                if isinstance(st, (ast.Assign, ast.AnnAssign)):
                    tg = st.targets[0] if isinstance(st, ast.Assign) else st.target
                    v = st.value
                    if isinstance(tg, ast.Name) and isinstance(v, (ast.Dict, ast.List, ast.Set)) or (isinstance(tg, ast.Name) and isinstance(v, ast.Call) and isinstance(v.func, ast.Name) and v.func.id in ("dict", "list", "set", "defaultdict", "deque")):
                        class_level[tg.id] = st
                if isinstance(st, ast.FunctionDef):
                    for x in ast.walk(st):
                        if isinstance(x, (ast.Assign, ast.AnnAssign, ast.AugAssign)):
                            for t in [y for t0 in (x.targets if isinstance(x, ast.Assign) else [x.target]) for y in flat(t0)]:
                                if isinstance(t, ast.Attribute) and dotted(t.value) == "self":
                                    bound_in_method.add(t.attr)
                                if isinstance(t, ast.Subscript) and isinstance(t.value, ast.Attribute) and dotted(t.value.value) == "self":
                                    mutated.setdefault(t.value.attr, x)
                        if isinstance(x, ast.Call) and isinstance(x.func, ast.Attribute) and x.func.attr in ("append", "extend", "update", "setdefault", "add", "insert", "pop", "clear"):
                            r = x.func.value
                            while isinstance(r, ast.Subscript):
                                r = r.value
                            if isinstance(r, ast.Attribute) and dotted(r.value) == "self":
                                mutated.setdefault(r.attr, x)
                        if isinstance(x, ast.Call) and dotted(x.func) in ("setattr", "vars") or (isinstance(x, ast.Attribute) and x.attr == "__dict__"):
                            bound_in_method.add("*")    # attributes may be bound reflectively
        for attr, st in sorted(class_level.items()):
            if attr in mutated:
                if "*" in bound_in_method and attr not in bound_in_method:
                    raise AnalysisError(f"{cq}: instance attributes are bound reflectively (unrecognised form)")
                n += 1
                ok = attr in bound_in_method
                ck.ob("R2-record-get", cq, f"per-instance:{attr}", ok, f"`{short(st, 60)}` in the class body; mutated by `{short(mutated[attr], 50)}`",
                      "" if ok else f"`{attr}` is one container shared by all instances of the class (bound only in the class body) and is mutated through self: records of different loggers end up in the same container", loc(mi, st))
    ck.count("class-level-mutable-containers", n)


# ---------------------------------------------------------------------------------------------------------------------------
def _wrapped(a: str, b: str) -> bool:
    """One canonical text occurs inside the other: the two values differ by a wrapper the rule does not know, not by their ingredients."""
    return a in b or b in a


def _save_list(ck, repo, nf, cq, key_order, key_path):
    """The path listed in checkpoint_path[key] is the one that was written, and it is listed only after the write finished."""
    fn = _mi(repo, cq, "_save_checkpoint")
    mi = fn._module
    cfg = nf.cfg_of(fn)
    site = cq + "._save_checkpoint"
    direct = _self_calls(nf, cfg, mi, "self.checkpointer", "save")
    via = _self_calls(nf, cfg, mi, "self", "save_model")      # OrbaxCheckpointer.save_model saves and waits (checked by itself)
    wait = _self_calls(nf, cfg, mi, "self.checkpointer", "wait_until_finished")
    app = [(n, c) for n, c in stmt_calls(cfg, lambda c: isinstance(c.func, ast.Attribute) and c.func.attr == "append") if recv_canon(nf, cfg, mi, n, c).startswith("self.checkpoint_path[")]
    ck.need(len(direct) + len(via) == 1 and len(app) == 1 and len(app[0][1].args) == 1, f"{site}: save / listing not found (unrecognised idiom)")
    (sn, scall), (an, acall) = (direct + via)[0], app[0]
    if cfg.enclosing_loops(sn.id) or cfg.enclosing_loops(an.id):
        raise AnalysisError(f"{site}: save / listing in a loop (unrecognised idiom)")
    opaque = _opaque_self_calls(nf, cfg, mi, {("self.checkpointer", "save"), ("self.checkpointer", "wait_until_finished"), ("self", "save_model"), ("self.checkpoint_path[", "append")})
    ok = cfg.dominates(sn.id, an.id)      # otherwise some path reaches the listing without the save
    if ok and direct:
        ok = cfg.paths_avoiding(sn.id, an.id, {w.id for w, _ in wait}) is None     # a path from the save to the listing without a wait
        if not ok and not wait and opaque:
            raise AnalysisError(f"{site}: no wait_until_finished found, but `{short(opaque[0][1], 50)}` may do it (unrecognised form)")
    ck.ob("R4-save-before-list", site, key_order, ok, " -> ".join(short(c, 50) for _, c in direct + via + wait + app), "" if ok else "a path may be listed only after it was saved and the write finished", loc(mi, fn))
    if direct:
        a_save = arg_of(scall, 0, "directory")
    else:
        sm = _mi(repo, cq, "save_model")
        if any(isinstance(a_, ast.Starred) for a_ in scall.args) or any(k.arg is None for k in scall.keywords):
            raise AnalysisError(f"{site}: `{short(scall, 60)}` passes packed arguments (unrecognised form)")
        a_save = bind_call(sm, scall, skip_self=True).get(positional_params(sm)[1])
    if a_save is None:
        raise AnalysisError(f"{site}: the path argument of `{short(scall, 60)}` is not found (unrecognised form)")
    sc = Scope(cfg, mi, {}, site)
    p_save = nf.poly(a_save, sc, sn.id).canon()
    p_app = nf.poly(acall.args[0], sc, an.id).canon()
    same = p_save == p_app
    if not same and (_unread(p_save) or _unread(p_app) or _wrapped(p_save, p_app) or not (_toks(p_app) <= _toks(p_save) or _toks(p_save) <= _toks(p_app))):
        raise AnalysisError(f"{site}: saved `{p_save[:60]}` and listed `{p_app[:60]}` cannot be compared (unrecognised form)")
    ck.ob("R4-save-before-list", site, key_path, same, f"saved {p_save[:60]} ; listed {p_app[:60]}", "" if same else "the listed path is not the one that was written", loc(mi, fn))


def _save_then_list(ck, repo, nf):
    _save_list(ck, repo, nf, LG + "StandardLogger", "save-wait-append", "same-path")
    _save_list(ck, repo, nf, OC, "save-then-append", "same-path")


def _save_model_waits(ck, repo, nf):
    fn = _mi(repo, OC, "save_model")
    mi = fn._module
    cfg = nf.cfg_of(fn)
    save = _self_calls(nf, cfg, mi, "self.checkpointer", "save")
    wait = _self_calls(nf, cfg, mi, "self.checkpointer", "wait_until_finished")
    ck.need(len(save) == 1 and not cfg.enclosing_loops(save[0][0].id), f"{OC}.save_model: expected one self.checkpointer.save call")
    ok = cfg.paths_avoiding(save[0][0].id, cfg.exit, {w.id for w, _ in wait}) is None     # otherwise: a path from the save to the return without a wait
    opaque = _opaque_self_calls(nf, cfg, mi, {("self.checkpointer", "save"), ("self.checkpointer", "wait_until_finished")})
    if not ok and not wait and opaque:
        raise AnalysisError(f"{OC}.save_model: no wait_until_finished found, but `{short(opaque[0][1], 50)}` may do it (unrecognised form)")
    ck.ob("R4-save-before-list", OC + ".save_model", "save-and-wait", ok, "save ; wait_until_finished on every path", "" if ok else "the write must be awaited before save_model returns: the caller lists the path right afterwards", loc(mi, fn))


# ---------------------------------------------------------------------------------------------------------------------------
def _not_cadence(c) -> bool:
    """Conditions about verbosity / None-defaults are not part of the cadence."""
    for x in ast.walk(c):
        if (isinstance(x, ast.Name) and x.id == "verbose") or (isinstance(x, ast.Attribute) and x.attr == "verbose"):
            return True
        if isinstance(x, ast.Compare) and any(isinstance(o, (ast.Is, ast.IsNot)) for o in x.ops) and any(isinstance(v, ast.Constant) and v.value is None for v in [x.left] + x.comparators):
            return True
    return False


def _one_sided(nf, e, sc, at):
    """A rebuilt copy of the boolean expression ``e`` (and / or / not over comparisons) in which every order comparison  a < b  (<=, >,
    >=) is written as  d < 0  with d = a - b or b - a, whichever normal form sorts first:  s - l >= f,  s >= l + f  and  l + f <= s
    are then one and the same comparison for the truth-table model.  The original nodes are shared, never modified."""
    flip = {ast.Lt: ast.Gt, ast.LtE: ast.GtE, ast.Gt: ast.Lt, ast.GtE: ast.LtE}
    if isinstance(e, ast.BoolOp):
        return ast.BoolOp(op=e.op, values=[_one_sided(nf, v, sc, at) for v in e.values])
    if isinstance(e, ast.UnaryOp) and isinstance(e.op, ast.Not):
        return ast.UnaryOp(op=e.op, operand=_one_sided(nf, e.operand, sc, at))
    if isinstance(e, ast.Compare) and len(e.ops) == 1 and type(e.ops[0]) in flip:
        a, b = e.left, e.comparators[0]
        d1, d2 = ast.BinOp(left=a, op=ast.Sub(), right=b), ast.BinOp(left=b, op=ast.Sub(), right=a)
        for d in (d1, d2):
            ast.copy_location(d, e)
        try:
            c1, c2 = nf.poly(d1, sc, at).canon(), nf.poly(d2, sc, at).canon()
        except Exception:
            return e
        if _unread(c1) or _unread(c2):
            return e
        out = ast.Compare(left=d1, ops=[e.ops[0]], comparators=[ast.Constant(value=0)]) if c1 <= c2 else ast.Compare(left=d2, ops=[flip[type(e.ops[0])]()], comparators=[ast.Constant(value=0)])
        return ast.copy_location(out, e)
    return e


def _cadence_orbax(ck, repo, nf):
    from ..sem import bool_equiv
    fn = _mi(repo, OC, "record_epoch")
    mi = fn._module
    cfg = nf.cfg_of(fn)
    site = OC + ".record_epoch"
    names = param_names(fn)
    if len(names) < 5 or fn.args.vararg or fn.args.kwarg:
        raise AnalysisError(f"{site}: signature ({', '.join(names)}) is not (self, key, value, episode, step, ...) (unrecognised form)")
    kp, sp = names[1], names[4]    # roles by position in the signature
    saves = _self_calls(nf, cfg, mi, "self", "_save_checkpoint") or _self_calls(nf, cfg, mi, "self", "save_model")
    ck.need(len(saves) >= 1, f"{site}: no checkpoint call (anchor vanished)")
    in_loop = any(cfg.enclosing_loops(n.id) for n, _ in saves)
    twice = any(a is not b and cfg.paths_avoiding(a.id, b.id, set()) is not None for a, _ in saves for b, _ in saves)
    if len(saves) > 1 and not in_loop and not twice:
        raise AnalysisError(f"{site}: {len(saves)} alternative checkpoint calls (unrecognised form)")
    ok1 = not in_loop and not twice     # otherwise: a path witness with two saves / a save per iteration
    ck.ob("R5-cadence", site, "one-save-per-record", ok1, f"{len(saves)} save call(s)", "" if ok1 else "at most one checkpoint may be written per record", loc(mi, fn))
    if not ok1:
        return
    sn, scall = saves[0]
    # the condition under which the save runs: conjunction of its (syntactic + dominating) branch conditions, as one boolean expression
    conds = []
    for b, lab in cfg.control_deps(sn.id):
        bn = cfg.nodes[b]
        if not (bn.kind == "test" and isinstance(bn.ast, ast.If)):
            raise AnalysisError(f"{site}: the checkpoint call depends on `{short(bn.ast, 50)}` (unrecognised form)")
        conds.append(bn.ast.test if lab else ast.UnaryOp(op=ast.Not(), operand=bn.ast.test))
    syntactic = {b for b, _ in cfg.control_deps(sn.id)}
    for bn in cfg.nodes:
        if bn.kind == "test" and isinstance(bn.ast, ast.If) and bn.id not in syntactic and cfg.dominates(bn.id, sn.id):
            reach = {lab: cfg.paths_avoiding(bn.id, sn.id, set(), feasible=False, first_label=lab) is not None for lab in (True, False)}
            if reach[True] != reach[False]:
                conds.append(bn.ast.test if reach[True] else ast.UnaryOp(op=ast.Not(), operand=bn.ast.test))
    n_all = len(conds)
    conds = [c for c in conds if not _not_cadence(c)]
    if not conds:
        if n_all or any(isinstance(x, (ast.Try, ast.Match, ast.With)) for x in ast.walk(fn)):
            raise AnalysisError(f"{site}: the condition of the checkpoint is not read (unrecognised form)")
        ck.ob("R5-cadence", site, "wrap-or-gap-predicate", False, "the save is unconditional", "a checkpoint is written on every record, not once per crossed interval", loc(mi, scall))
        return
    got = conds[0] if len(conds) == 1 else ast.BoolOp(op=ast.And(), values=conds)
    want = parse_expr(f"({kp} in self.checkpoint_frequencies) and ((self.last_step[{kp}] % self.checkpoint_frequencies[{kp}] > {sp} % self.checkpoint_frequencies[{kp}]) or ({sp} - self.last_step[{kp}] >= self.checkpoint_frequencies[{kp}]))")
    ast.fix_missing_locations(got)
    eq = bool_equiv(nf, mi, got, want, cfg1=cfg, at1=sn.id, opaque1=set(names))
    if eq is None:
        # the same comparisons with their terms on other sides (step >= last + f for step - last >= f)
        sc1, sc2 = Scope(cfg, mi, {}, "b1"), Scope(None, mi, {}, "b2")
        sc1.opaque_names = set(names)
        got1, want1 = ast.fix_missing_locations(_one_sided(nf, got, sc1, sn.id)), ast.fix_missing_locations(_one_sided(nf, want, sc2, None))
        eq = bool_equiv(nf, mi, got1, want1, cfg1=cfg, at1=sn.id, opaque1=set(names))
    if eq is None:
        raise AnalysisError(f"{site}: the condition of the checkpoint `{short(got, 120)}` is built from other comparisons than the documented wrap-or-gap test: equivalence not decidable here")
    ck.ob("R5-cadence", site, "wrap-or-gap-predicate", eq, f"save iff {short(got, 150)}", "" if eq else f"documented predicate: registered key and (last % f > step % f or step - last >= f); the truth tables differ", loc(mi, scall))


def _cadence_orbax_state(ck, repo, nf):
    # last_step[key] = step on every path, after the guard read the previous value
    fn = _mi(repo, OC, "record_epoch")
    mi = fn._module
    cfg = nf.cfg_of(fn)
    site = OC + ".record_epoch"
    names = param_names(fn)
    if len(names) < 5 or fn.args.vararg or fn.args.kwarg:
        raise AnalysisError(f"{site}: signature ({', '.join(names)}) is not (self, key, value, episode, step, ...) (unrecognised form)")
    kp, sp = names[1], names[4]    # roles by position in the signature
    stores = lambda n: [t for t in (n.ast.targets if isinstance(n.ast, ast.Assign) else [n.ast.target]) if isinstance(t, ast.Subscript) and _self_attr(_alias_value(cfg, n.id, t.value)[0], ("last_step",))]
    upd = [n for n in cfg.nodes if n.kind == "stmt" and isinstance(n.ast, ast.Assign) and stores(n)]
    tests = [n for n in cfg.nodes if n.kind == "test" and hasattr(n.ast, "test") and _mentions(n.ast.test, ("last_step",))]
    alias_reads = [n for n in cfg.nodes if n.kind == "stmt" and n not in upd and isinstance(n.ast, (ast.Assign, ast.AnnAssign)) and n.ast.value is not None and _mentions(n.ast.value, ("last_step",))]
    need = set().union(*[n.uses for n in cfg.nodes if n.kind == "test"] + [set()])     # names the tests depend on, through local definitions
    for _ in range(8):
        need |= set().union(*[n.uses for n in cfg.nodes if n.kind == "stmt" and any(d.name in need for d in n.defs)] + [set()])
    alias_defs, alias_reads = alias_reads, [n for n in alias_reads if any(d.name in need for d in n.defs)]
    reads = tests + alias_reads
    for n in cfg.nodes:
        if n.kind == "stmt" and n not in upd and n not in alias_defs and n.ast is not None and not isinstance(n.ast, ast.ExceptHandler) and _mentions(n.ast, ("last_step",)) and not _reads_only(n.ast, lambda x: _self_attr(x, ("last_step",)), True):
            raise AnalysisError(f"{site}: `{short(n.ast, 60)}` uses last_step in a way that is not read (unrecognised form)")
    if not reads and not upd:
        raise AnalysisError(f"{site}: the cadence state self.last_step is not used: another mechanism (unrecognised form)")
    usc = Scope(cfg, mi, {}, site)
    usc.opaque_names = set(names)
    STEP = (sp, f"ite(Is(None, {sp}), self.n_steps, {sp})", f"ite(Is({sp}, None), self.n_steps, {sp})", f"ite(IsNot(None, {sp}), {sp}, self.n_steps)", f"ite(IsNot({sp}, None), {sp}, self.n_steps)")
    bad_value = []
    for u in upd:
        t = stores(u)[0]
        kc = nf.poly(t.slice, usc, u.id).canon()
        v = nf.poly(u.ast.value, usc, u.id).canon()
        if kc != kp:
            raise AnalysisError(f"{site}: last_step[{kc[:40]}] is not the entry of the recorded key (unrecognised form)")
        if v not in STEP:
            if _unread(v) or not _built_from(v, set(names) | {"n_steps", "_n_episodes"}):
                raise AnalysisError(f"{site}: last_step[{kp}] is set to `{v[:60]}` (unrecognised idiom)")
            bad_value.append(v)
    ids = {u.id for u in upd}
    opaque = _opaque_self_calls(nf, cfg, mi, {("self", "_save_checkpoint"), ("self", "save_model")})
    if not upd and opaque:
        raise AnalysisError(f"{site}: no statement that sets last_step[{kp}] found, but `{short(opaque[0][1], 50)}` may do it (unrecognised form)")
    ok = bool(upd) and not bad_value and cfg.paths_avoiding(cfg.entry, cfg.exit, ids) is None and all(cfg.paths_avoiding(u.id, r.id, set()) is None for u in upd for r in reads if r.id != u.id)
    ck.ob("R5-cadence", site, "last-step-updated-after-guard", ok, f"{[short(n.ast) for n in upd]}", "" if ok else "last_step[key] must be set to step on every path, after the test read the previous value (otherwise crossings are missed or counted again)", loc(mi, fn))
    fn2 = _mi(repo, OC, "define_checkpoint_frequency")
    n2 = param_names(fn2)
    if len(n2) < 3:
        raise AnalysisError(f"{OC}.define_checkpoint_frequency: signature ({', '.join(n2)}) (unrecognised form)")
    k2, ip = n2[1], n2[2]
    cfg2 = nf.cfg_of(fn2)
    bad, shown = [], {}
    try:
        paths2 = enumerate_paths(cfg2, cfg2.entry, {cfg2.exit})
    except RuntimeError:
        raise AnalysisError(f"{OC}.define_checkpoint_frequency: too many paths")
    for pth in paths2:
        pe = PathEval(nf, cfg2, fn2._module, "dcf", {p: Poly.atom(p, {p}, {p}) for p in n2})
        for nid, lab in pth[:-1]:
            pe.step(nid, lab)
        st = {k: v for k, v in pe.store.items() if k.endswith(f"[{k2}]")}
        shown = {k: v.canon() for k, v in st.items()}
        f_, l_, p_ = (st.get(f"self.{a}[{k2}]") for a in ("checkpoint_frequencies", "last_step", "checkpoint_path"))
        if f_ is None or l_ is None or p_ is None:
            raise AnalysisError(f"{OC}.define_checkpoint_frequency: the initial entries of checkpoint_frequencies / last_step / checkpoint_path are not all found {sorted(shown)} (unrecognised form)")
        for what, v, good in (("interval", f_, f_.canon() == ip), ("last step", l_, l_.canon() == "0"), ("path list", p_, p_.canon() in ("()", "list()") or (p_.elems is not None and len(p_.elems) == 0))):
            if good:
                continue
            c = v.canon()
            if what == "path list" and not (v.elems is not None and len(v.elems) > 0):
                raise AnalysisError(f"{OC}.define_checkpoint_frequency: initial {what} `{c[:60]}` is not read (unrecognised form)")
            if what != "path list" and (_unread(c) or not (v.is_const() or _built_from(c, n2))):
                raise AnalysisError(f"{OC}.define_checkpoint_frequency: initial {what} `{c[:60]}` is not read (unrecognised form)")
            bad.append((what, c))
    ck.ob("R5-cadence", OC + ".define_checkpoint_frequency", "initial-state", not bad, f"{shown}", "" if not bad else f"registration must initialise interval, an empty path list and last step 0: {bad[:2]}", loc(fn2._module, fn2))


def _cadence_threshold(ck, repo, nf):
    """A cadence written as a lower bound on the recorded step (`save when step >= E(state)`) can only be right when the state it reads
    is advanced, on the save path, to something that depends on the recorded step: when the new state E' is a function of the old state
    alone, a record with step >= max(E, E') writes a checkpoint and a repetition of that record (same step: no multiple of the interval
    was passed) writes another one.  Decided as a dataflow fact of the per-path normal forms; the rule is silent when the guard is not
    such a bound, and does not try to decide a threshold that does depend on the step (integer arithmetic)."""
    fn = _mi(repo, OC, "record_epoch")
    mi = fn._module
    cfg = nf.cfg_of(fn)
    site = OC + ".record_epoch"
    names = param_names(fn)
    if len(names) < 5 or fn.args.vararg or fn.args.kwarg:
        return
    kp, sp = names[1], names[4]    # roles by position in the signature
    saves = _self_calls(nf, cfg, mi, "self", "_save_checkpoint") or _self_calls(nf, cfg, mi, "self", "save_model")
    if len(saves) != 1 or cfg.enclosing_loops(saves[0][0].id):
        return
    sid = saves[0][0].id
    try:
        res = _paths_lits(nf, cfg, mi, site, {p: Poly.atom(p, {p}, {p}) for p in names})
    except AnalysisError:
        return
    REG = f"In({kp}, self.checkpoint_frequencies)"
    NONE_TESTS = {f"Is({sp}, None)", f"Is(None, {sp})", f"IsNot({sp}, None)", f"IsNot(None, {sp})", f"not(Is({sp}, None))", f"not(Is(None, {sp}))"}
    seen = set()
    for pe, lits, pth in res:
        if not any(nid == sid for nid, _ in pth) or sp not in pe.env or pe.env[sp].canon() != sp:
            continue       # paths that save a record with an explicitly given step
        bounds = []
        for l in lits:
            op = "LtE" if l.startswith("LtE(") else "Lt" if l.startswith("Lt(") else None
            parts = _split_top(l[len(op) + 1:-1]) if op and l.endswith(")") else []
            if len(parts) == 2 and parts[1] == sp and sp not in _toks(parts[0]):
                bounds.append((op, parts[0]))
        if len(bounds) != 1:
            return
        op, E = bounds[0]
        attrs = set(re.findall(rf"self\.(\w+)\[{re.escape(kp)}\]", E)) - {"checkpoint_frequencies"}
        if not attrs or _unread(E) or not _built_from(E, attrs | {"checkpoint_frequencies", kp}, ops={"self"}):
            return
        about = attrs | {sp, "n_steps", "checkpoint_frequencies"}
        if any(_toks(l) & about for l in lits if l not in NONE_TESTS and l != REG and l != f"{op}({E}, {sp})"):
            return         # the save depends on the step / the state in another way as well
        new = tuple(sorted((a, (pe.store[f"self.{a}[{kp}]"].canon() if f"self.{a}[{kp}]" in pe.store else f"self.{a}[{kp}]")) for a in attrs))
        seen.add((op, E, new))
    if len(seen) != 1:
        return             # no such path, or the paths do not agree
    (op, E, new), = seen
    attrs = {a for a, _ in new}
    if any(_unread(v) or not _built_from(v, attrs | {"checkpoint_frequencies", "epoch", kp}, ops={"self"}) for _, v in new):
        return             # the new state involves the step (or something that is not read): not decided here
    # every write of the state was seen: it is written by subscript stores of this method only
    par = {}
    for p in ast.walk(fn):
        for ch in ast.iter_child_nodes(p):
            par[id(ch)] = p
    for x in ast.walk(fn):
        if _self_attr(x, attrs) and not (isinstance(par.get(id(x)), ast.Subscript) and par[id(x)].value is x and not isinstance(par[id(x)].slice, ast.Slice)):
            raise AnalysisError(f"{site}: the cadence state `{short(x, 40)}` is used as a whole (unrecognised form)")
    if any(isinstance(x, (ast.FunctionDef, ast.Lambda, ast.Try, ast.While, ast.For)) for st in fn.body for x in ast.walk(st)):
        raise AnalysisError(f"{site}: the cadence state may be written in a nested function / handler / loop (unrecognised form)")
    if _opaque_self_calls(nf, cfg, mi, {("self", "_save_checkpoint"), ("self", "save_model")}) or any(
            isinstance(x, ast.Call) and any(isinstance(a_, ast.Name) and a_.id == "self" for a_ in list(x.args) + [k.value for k in x.keywords]) for x in ast.walk(fn)):
        raise AnalysisError(f"{site}: a method / function called from here may write the cadence state (unrecognised form)")
    for oc, meth in _class_methods(repo, OC):
        if meth.name not in ("record_epoch", "__init__", "define_checkpoint_frequency") and _mentions(meth, attrs):
            raise AnalysisError(f"{site}: the cadence state is also used by {meth.name} (unrecognised form)")
    shown = f"save iff {E} {'<=' if op == 'LtE' else '<'} {sp}; then " + ", ".join(f"{a}[{kp}]' = {v}" for a, v in new)
    ck.ob("R5-cadence", site, "due-threshold-follows-step", False, shown,
          f"the state the bound reads is advanced to a value that does not depend on the recorded step: a record whose {sp} is at least both the old and the new bound writes a checkpoint, and a second record with the same {sp} "
          "(no multiple of the interval was passed since the previous record) writes another one; after a write the bound must exceed the recorded step", loc(mi, saves[0][1]))


def _cadence_standard(ck, repo, nf):
    # StandardLogger: the counter is advanced exactly once per record, the checkpoint is written iff the key is registered and the
    # advanced counter is a multiple of the interval
    fn = _mi(repo, LG + "StandardLogger", "record_epoch")
    mi = fn._module
    cfg = nf.cfg_of(fn)
    site = LG + "StandardLogger.record_epoch"
    names = param_names(fn)
    if len(names) < 2:
        raise AnalysisError(f"{site}: signature (unrecognised form)")
    kp = names[1]
    env = {p: Poly.atom(p, {p}, {p}) for p in names}
    save_ids = {n.id for n, _ in _self_calls(nf, cfg, mi, "self", "_save_checkpoint")} or {n.id for n, _ in _self_calls(nf, cfg, mi, "self.checkpointer", "save")}
    ck.need(bool(save_ids), f"{site}: no checkpoint call (anchor vanished)")
    if any(cfg.enclosing_loops(i) for i in save_ids):
        raise AnalysisError(f"{site}: checkpoint call in a loop (unrecognised form)")
    if any(not (cfg.nodes[i].kind == "stmt" and isinstance(cfg.nodes[i].ast, (ast.Expr, ast.Assign)) and isinstance(cfg.nodes[i].ast.value, ast.Call)) for i in save_ids):
        raise AnalysisError(f"{site}: the checkpoint call is part of a larger expression (unrecognised form)")
    is_epoch = lambda x: _self_attr(x, ("epoch",))
    if not _mentions(fn, ("epoch",)):
        raise AnalysisError(f"{site}: the counter self.epoch is not used (anchor vanished)")
    for n in cfg.nodes:
        if n.ast is None or n.kind != "stmt" or isinstance(n.ast, ast.ExceptHandler) or not _mentions(n.ast, ("epoch",)):
            continue
        tgs = n.ast.targets if isinstance(n.ast, ast.Assign) else [n.ast.target] if isinstance(n.ast, ast.AugAssign) else []
        stored = [t for t in tgs if isinstance(t, ast.Subscript) and is_epoch(t.value)]      # epoch[k] = ... / epoch[k] += ...: evaluated per path
        rest = [n.ast.value] + [t for t in tgs if t not in stored] + [t.slice for t in stored] if (tgs and stored) else [n.ast]
        c = n.ast.value if isinstance(n.ast, ast.Expr) else None
        if isinstance(c, ast.Call) and isinstance(c.func, ast.Attribute) and c.func.attr == "setdefault" and is_epoch(c.func.value) and len(c.args) == 2 and isinstance(c.args[1], ast.Constant) and c.args[1].value == 0 and type(c.args[1].value) is int:
            rest = list(c.args)      # creation of the entry with 0 when it is missing: the same state as the `not in` branch
        if any(not _reads_only(r, is_epoch, True) for r in rest):
            raise AnalysisError(f"{site}: `{short(n.ast, 60)}` uses the epoch counter in a way that is not read (unrecognised form)")
    res = _paths_lits(nf, cfg, mi, site, env)
    EP = f"self.epoch[{kp}]"
    F = f"self.checkpoint_frequencies[{kp}]"
    reg = {f"In({kp}, self.checkpoint_frequencies)"}
    unreg = {f"NotIn({kp}, self.checkpoint_frequencies)", f"not(In({kp}, self.checkpoint_frequencies))"}
    due = {f"Eq(0, mod(1 + {EP}, {F}))", f"not(mod(1 + {EP}, {F}))"}
    not_due = {f"NotEq(0, mod(1 + {EP}, {F}))", f"mod(1 + {EP}, {F})"}
    ING = {"epoch", "checkpoint_frequencies", kp}
    GETS = [f"self.checkpoint_frequencies.get({kp}{d})" for d in ("", ", None", ", 0")]

    def registered_by_get(l):
        """The interval looked up with `.get(key)`: it is the interval of a registered key, and None (0 with that default) - false, and
        not None - exactly for an unregistered one (intervals are integers >= 1: quantification of the property)."""
        for g in GETS:
            if l in (g, f"IsNot(None, {g})", f"IsNot({g}, None)", f"not(Is(None, {g}))", f"not(Is({g}, None))") and not (l != g and g.endswith(", 0)")):
                return f"In({kp}, self.checkpoint_frequencies)"
            if l in (f"not({g})", f"Is(None, {g})", f"Is({g}, None)") and not (l != f"not({g})" and g.endswith(", 0)")):
                return f"NotIn({kp}, self.checkpoint_frequencies)"
        for g in GETS:
            l = l.replace(g, F)
        return l
    bad_inc, bad_save, unread = [], [], []
    for pe, lits, pth in res:
        newc = pe.store.get(EP)
        # the entry is created (0) on this path: under a test that the key is new (in epoch, or in a container that is created with it)
        first = any(k == EP and v.is_const() and v.const_value() == 0 for _, k, v in pe.log) and any(re.fullmatch(rf"NotIn\({re.escape(kp)}, self\.\w+\)", l) for l in lits)
        want_c = "1" if first else f"1 + {EP}"
        if newc is None and any(k.startswith("self.epoch[") for k in pe.store):
            unread.append(f"epoch[{kp}] is not stored, but {[k for k in pe.store if k.startswith('self.epoch[')][:2]}")
        elif newc is None:
            bad_inc.append((None, want_c))     # no store to epoch[key] on this path (every statement that mentions self.epoch was read)
        elif newc.canon() != want_c:
            c = newc.canon()
            if _unread(c) or not _built_from(c, ING):
                unread.append(f"epoch[{kp}] becomes `{c[:80]}`")
            else:
                bad_inc.append((c, want_c))
        n_saves = sum(1 for nid, lab in pth if nid in save_ids)
        dl = [registered_by_get(l.replace("mod(1, ", f"mod(1 + {EP}, ") if first else l) for l in lits]
        is_reg, is_unreg = any(l in reg for l in dl), any(l in unreg for l in dl)
        is_due, is_not_due = any(l in due for l in dl), any(l in not_due for l in dl)
        # literals about the counter / the interval in another form
        cad = [l for l in dl if l not in reg | unreg | due | not_due and ("epoch" in _toks(l) and "mod" in _toks(l) or F in l)]
        if n_saves > 1:
            bad_save.append(("twice", lits))
        elif n_saves == 1 and not (is_reg and is_due):
            if is_unreg or is_not_due:
                bad_save.append(("saved although not (registered and due)", [l for l in dl if l in unreg | not_due]))
            elif any(not _unread(l) and not l.startswith(_COMPOUND) and _built_from(l, ING) for l in cad):
                bad_save.append(("saved although not (registered and due): the test is on another quantity than the advanced counter", cad[:2]))
            elif cad or (not is_reg and any("checkpoint_frequencies" in _toks(l) for l in dl)):
                unread.append(f"checkpoint written under {(cad or dl)[:2]}")
            else:
                bad_save.append(("saved without a test of the advanced counter against the interval of a registered key", dl[:3]))
        elif n_saves == 0 and is_reg and is_due:
            bad_save.append(("not saved although registered and due", []))
    if unread and not (bad_inc or bad_save):
        raise AnalysisError(f"{site}: {unread[0]} (unrecognised idiom)")
    ck.ob("R5-cadence", site, "count-then-test", not bad_inc, "epoch[key] advances by one on every path", "" if not bad_inc else f"every recorded epoch increments the counter exactly once: {bad_inc[:2]}", loc(mi, fn))
    ck.ob("R5-cadence", site, "every-interval-th-epoch", not bad_save, "checkpoint iff key registered and the advanced epoch counter is a multiple of the interval", "" if not bad_save else f"{bad_save[:2]}", loc(mi, fn))


def _kept_readouts(ck, repo, nf):
    """"Every recorded statistic is retrievable in recording order": get_stat must answer from the containers as they are when it is
    called.  If it keeps a converted copy in another attribute of the logger (a cache), every method that adds a record - directly or
    through a helper method of the class - must refresh that attribute (pop / del / clear / assign), otherwise a later get_stat returns
    the arrays of before.  Evidence for a violation: a method reaches an append to the recorded containers while neither it nor the helper
    that appends touches the kept attribute, and get_stat's reuse test does not look at the containers."""

    def self_attr_base(b):
        while isinstance(b, ast.Subscript):
            b = b.value
        return b.attr if isinstance(b, ast.Attribute) and isinstance(b.value, ast.Name) and b.value.id == "self" else None

    def touches(fn, attrs):
        for x in ast.walk(fn):
            if isinstance(x, ast.Call) and isinstance(x.func, ast.Attribute) and x.func.attr in ("pop", "clear", "popitem", "update", "setdefault"):
                if self_attr_base(x.func.value) in attrs:
                    return True
            tg = x.targets if isinstance(x, (ast.Assign, ast.Delete)) else [x.target] if isinstance(x, (ast.AugAssign, ast.AnnAssign)) else []
            for t_ in tg:
                if self_attr_base(t_) in attrs:
                    return True
        return False

    def appends(fn):
        for x in ast.walk(fn):
            if isinstance(x, ast.Call) and isinstance(x.func, ast.Attribute) and x.func.attr in ("append", "extend", "insert") and self_attr_base(x.func.value) in ("stats", "stats_loc"):
                return True
            if isinstance(x, ast.AugAssign) and self_attr_base(x.target) in ("stats", "stats_loc"):
                return True
        return False

    for cq in (LG + "MemoryLogger", LG + "StandardLogger"):
        g = _mi(repo, cq, "get_stat")
        # attributes of self that get_stat stores into (directly, through setdefault, or through a local alias of such an entry)
        kept, alias = set(), {}
        for st in ast.walk(g):
            if isinstance(st, ast.Assign) and len(st.targets) == 1 and isinstance(st.targets[0], ast.Name):
                v = st.value
                while isinstance(v, ast.Call) and isinstance(v.func, ast.Attribute) and v.func.attr in ("setdefault", "get"):
                    v = v.func.value
                a_ = self_attr_base(v)
                if a_ is not None and a_ not in ("stats", "stats_loc"):
                    alias[st.targets[0].id] = a_
        for st in ast.walk(g):
            tg = st.targets if isinstance(st, ast.Assign) else [st.target] if isinstance(st, (ast.AugAssign, ast.AnnAssign)) else []
            for t in tg:
                if not isinstance(t, ast.Subscript):
                    if isinstance(t, ast.Attribute) and isinstance(t.value, ast.Name) and t.value.id == "self":
                        kept.add(t.attr)
                    continue
                a_ = self_attr_base(t)
                if a_ is not None:
                    kept.add(a_)
                else:
                    b = t
                    while isinstance(b, ast.Subscript):
                        b = b.value
                    if isinstance(b, ast.Name) and b.id in alias:
                        kept.add(alias[b.id])
            if isinstance(st, ast.Call) and isinstance(st.func, ast.Attribute) and st.func.attr == "setdefault" and self_attr_base(st.func.value) is not None:
                kept.add(self_attr_base(st.func.value))
        kept -= {"stats", "stats_loc"}
        site = f"{cq}.get_stat"
        if not kept:
            ck.ob("R2-record-get", site, "answers-from-the-records", True, "get_stat keeps nothing between calls", "", loc(g._module, g))
            continue
        # a reuse test that looks at the recorded containers (length / identity) re-validates the kept copy: not read here
        for t in ast.walk(g):
            if isinstance(t, (ast.If, ast.IfExp, ast.While)) and _mentions(t.test, tuple(kept)) and _mentions(t.test, ("stats", "stats_loc")):
                raise AnalysisError(f"{site}: the kept read-out {sorted(kept)} is re-validated against the records (unrecognised form)")
        own = {}
        for c in repo.mro(cq):
            for m_ in repo.cls(c).body:
                if isinstance(m_, ast.FunctionDef) and m_.name not in own:
                    own[m_.name] = m_
        stale = []
        for name, fn in sorted(own.items()):
            if name in ("get_stat", "__init__"):
                continue
            callees = [own[c.func.attr] for c in ast.walk(fn) if isinstance(c, ast.Call) and isinstance(c.func, ast.Attribute) and isinstance(c.func.value, ast.Name)
                       and c.func.value.id == "self" and c.func.attr in own and c.func.attr != name]
            adds_here = appends(fn)
            adds_below = [h for h in callees if appends(h)]
            if not (adds_here or adds_below):
                continue
            refreshed = touches(fn, kept) or (not adds_here and all(touches(h, kept) for h in adds_below))
            if not refreshed:
                stale.append(name)
        # a helper that only appends is judged through its callers
        called_helpers = {c.func.attr for fn in own.values() for c in ast.walk(fn) if isinstance(c, ast.Call) and isinstance(c.func, ast.Attribute)
                          and isinstance(c.func.value, ast.Name) and c.func.value.id == "self"}
        inlined = {x.rsplit(".", 1)[1] for x in repo.transparent_helpers()}      # helpers whose every use was expanded into its callers
        stale = [n for n in stale if not (n.startswith("_") and (n in called_helpers or n in inlined))]
        ok = not stale
        ck.ob("R2-record-get", site, "answers-from-the-records", ok, f"get_stat keeps converted read-outs in self.{sorted(kept)}",
              "" if ok else f"{stale} add(s) a record without refreshing self.{sorted(kept)}: a get_stat after it returns the arrays of before (the new record is not retrievable)", loc(g._module, g))


def run(ck, repo: Repo, tier: str):
    nf = NF(repo, inline_depth=1, inline_calls=False)
    for group in (_fan_out, _record_get, _kept_readouts, _counters, _save_then_list, _save_model_waits, _cadence_orbax, _cadence_orbax_state, _cadence_threshold, _cadence_standard):
        ck.guard(group, ck, repo, nf)
    ck.guard(_instance_state, ck, repo)


_L, _C = "rl_blox/logging/logger.py", "rl_blox/logging/checkpointer.py"
MUTANTS = [
    {"id": "c20-get-stat-keeps-arrays-never-refreshed", "file": 'rl_blox/logging/logger.py', "rule": "R2", "nth": 0, "find": '        x = np.asarray(list(map(lambda x: x[x_idx], self.stats_loc[key])))\n        y = np.asarray(self.stats[key])\n        return x, y\n', "replace": '        kept = self.__dict__.setdefault("_kept", {})\n        if (key, x_key) not in kept:\n            kept[(key, x_key)] = (np.asarray(list(map(lambda x: x[x_idx], self.stats_loc[key]))), np.asarray(self.stats[key]))\n        return kept[(key, x_key)]\n'},
    {"id": "c20-memory-shared-stats", "file": "rl_blox/logging/logger.py", "rule": "R2", "edits": [("class MemoryLogger(LoggerBase):\n", "class MemoryLogger(LoggerBase):\n    stats = {}\n    stats_loc = {}\n"), ("        self.n_steps = 0\n        self.stats_loc = {}\n        self.stats = {}\n", "        self.n_steps = 0\n")]},
    {"id": "c20-list-drops-step", "file": _L, "rule": "R1", "find": "                key, value, episode, step, t, verbose, format_str\n", "replace": "                key, value, episode, None, t, verbose, format_str\n"},
    {"id": "c20-list-swaps-episode-step", "file": _L, "rule": "R1", "find": "                key, value, episode, step, t, verbose, format_str\n", "replace": "                key, value, step, episode, t, verbose, format_str\n"},
    {"id": "c20-list-first-only", "file": _L, "rule": "R1", "find": "        for logger in self.loggers:\n            logger.record_epoch(key, value, episode, step, t)", "replace": "        for logger in self.loggers[:1]:\n            logger.record_epoch(key, value, episode, step, t)"},
    {"id": "c20-list-no-stop", "file": _L, "rule": "R1", "find": "        for logger in self.loggers:\n            logger.stop_episode(total_steps)", "replace": "        for logger in self.loggers:\n            logger.stop_episode(0)"},
    {"id": "c20-memory-tuple-order", "file": _L, "rule": "R2", "nth": 1, "find": "        self.stats_loc[key].append((episode, step, t))", "replace": "        self.stats_loc[key].append((step, episode, t))"},
    {"id": "c20-standard-skip-when-quiet", "file": _L, "rule": "R2", "nth": 0, "find": "        self.stats_loc[key].append((episode, step, t))\n        self.stats[key].append(value)\n        verbose = self.verbose if verbose is None else verbose", "replace": "        verbose = self.verbose if verbose is None else verbose\n        if verbose or key != \"episode_length\":\n            self.stats_loc[key].append((episode, step, t))\n        self.stats[key].append(value)"},
    {"id": "c20-memory-default-step", "file": _L, "rule": "R2", "nth": 1, "find": "        if step is None:\n            step = self.n_steps\n        if t is None:\n            t = time.time() - self.start_time\n        self.stats_loc[key].append((episode, step, t))\n        self.stats[key].append(value)\n\n    def get_stat", "replace": "        if step is None:\n            step = self._n_episodes\n        if t is None:\n            t = time.time() - self.start_time\n        self.stats_loc[key].append((episode, step, t))\n        self.stats[key].append(value)\n\n    def get_stat"},
    {"id": "c20-get-stat-keys", "file": _L, "rule": "R2", "nth": 0, "find": "        X_KEYS = [\"episode\", \"step\", \"time\"]", "replace": "        X_KEYS = [\"step\", \"episode\", \"time\"]"},
    {"id": "c20-counter-in-record", "file": _L, "rule": "R3", "nth": 0, "find": "        if episode is None:\n            episode = self._n_episodes\n        if step is None:\n            step = self.n_steps\n        if t is None:\n            t = time.time() - self.start_time\n        self.stats_loc[key].append((episode, step, t))", "replace": "        if episode is None:\n            episode = self._n_episodes\n        if step is None:\n            self.n_steps += 1\n            step = self.n_steps\n        if t is None:\n            t = time.time() - self.start_time\n        self.stats_loc[key].append((episode, step, t))"},
    {"id": "c20-stop-episode-plus-one", "file": _L, "rule": "R3", "nth": 0, "find": "        self.n_steps += total_steps\n        self.record_stat(\"episode_length\", total_steps, verbose=0)", "replace": "        self.n_steps += total_steps + 1\n        self.record_stat(\"episode_length\", total_steps, verbose=0)"},
    {"id": "c20-append-before-wait", "file": _L, "rule": "R4", "find": "        self.checkpointer.save(f\"{checkpoint_path}\", state)\n        self.checkpointer.wait_until_finished()\n        self.checkpoint_path[key].append(checkpoint_path)", "replace": "        self.checkpoint_path[key].append(checkpoint_path)\n        self.checkpointer.save(f\"{checkpoint_path}\", state)\n        self.checkpointer.wait_until_finished()"},
    {"id": "c20-orbax-no-wait", "file": _C, "rule": "R4", "find": "        self.checkpointer.save(path, state)\n        self.checkpointer.wait_until_finished()", "replace": "        self.checkpointer.save(path, state)"},
    {"id": "c20-orbax-last-step-before-guard", "file": _C, "rule": "R5", "find": "        if key in self.checkpoint_frequencies:\n            # check", "replace": "        self.last_step[key] = step\n        if key in self.checkpoint_frequencies:\n            # check"},
    {"id": "c20-orbax-last-step-only-on-save", "file": _C, "rule": "R5", "find": "                self._save_checkpoint(key, value, step)\n\n        self.last_step[key] = step", "replace": "                self._save_checkpoint(key, value, step)\n                self.last_step[key] = step"},
    {"id": "c20-orbax-gap-gt", "file": _C, "rule": "R5", "find": "                (step - self.last_step[key]) >= self.checkpoint_frequencies[key]", "replace": "                (step - self.last_step[key]) > self.checkpoint_frequencies[key]"},
    {"id": "c20-orbax-wrap-ge", "file": _C, "rule": "R5", "find": "                > step % self.checkpoint_frequencies[key]", "replace": "                >= step % self.checkpoint_frequencies[key]"},
    {"id": "c20-standard-test-before-inc", "file": _L, "rule": "R5", "find": "        self.epoch_loc[key].append((episode, step, t))\n        self.epoch[key] += 1\n", "replace": "        self.epoch_loc[key].append((episode, step, t))\n"},
    # violation paths that rest on positive evidence only (audit): a constant, a path witness, the documented ingredients combined differently
    {"id": "c20-list-constant-episodes", "file": _L, "rule": "R1", "find": "        return self.loggers[0].n_episodes", "replace": "        return 0"},
    {"id": "c20-list-not-overridden", "file": _L, "rule": "R1", "nth": 1, "find": "    def stop_episode(self, total_steps: int):\n        \"\"\"Register end of episode.\n\n        Parameters", "replace": "    def stop_all_episodes(self, total_steps: int):\n        \"\"\"Register end of episode.\n\n        Parameters"},
    {"id": "c20-memory-records-key", "file": _L, "rule": "R2", "nth": 1, "find": "        self.stats[key].append(value)\n", "replace": "        self.stats[key].append(key)\n"},
    {"id": "c20-memory-step-never-defaulted", "file": _L, "rule": "R2", "find": "        if step is None:\n            step = self.n_steps\n        if t is None:\n            t = time.time() - self.start_time\n        self.stats_loc[key].append((episode, step, t))\n        self.stats[key].append(value)\n\n    def get_stat", "replace": "        if t is None:\n            t = time.time() - self.start_time\n        self.stats_loc[key].append((episode, step, t))\n        self.stats[key].append(value)\n\n    def get_stat", "nth": 1},
    {"id": "c20-stdout-steps-skipped", "file": _L, "rule": "R3", "find": "        self.n_steps += total_steps\n\n    def define_experiment(", "replace": "        if total_steps > 1:\n            self.n_steps += total_steps\n\n    def define_experiment("},
    {"id": "c20-standard-lists-other-path", "file": _L, "rule": "R4", "find": "        self.checkpoint_path[key].append(checkpoint_path)", "replace": "        self.checkpoint_path[key].append(os.path.join(f\"{self.checkpoint_dir}\", f\"{self.start_time}_{self.algorithm_name}_{self.env_name}_{key}_{self.epoch[key]}/\"))"},
    {"id": "c20-orbax-two-saves", "file": _C, "rule": "R5", "find": "                self._save_checkpoint(key, value, step)\n\n        self.last_step[key] = step", "replace": "                self._save_checkpoint(key, value, step)\n                self._save_checkpoint(key, value, step)\n\n        self.last_step[key] = step"},
    {"id": "c20-orbax-last-step-never", "file": _C, "rule": "R5", "find": "                self._save_checkpoint(key, value, step)\n\n        self.last_step[key] = step\n", "replace": "                self._save_checkpoint(key, value, step)\n"},
    {"id": "c20-orbax-last-step-counter", "file": _C, "rule": "R5", "find": "                self._save_checkpoint(key, value, step)\n\n        self.last_step[key] = step\n", "replace": "                self._save_checkpoint(key, value, step)\n\n        self.last_step[key] = self.n_steps\n"},
    {"id": "c20-orbax-initial-last-step", "file": _C, "rule": "R5", "find": "        self.last_step[key] = 0\n", "replace": "        self.last_step[key] = checkpoint_interval\n"},
    {"id": "c20-standard-save-when-not-due", "file": _L, "rule": "R5", "find": "            and self.epoch[key] % self.checkpoint_frequencies[key] == 0\n", "replace": "            and self.epoch[key] % self.checkpoint_frequencies[key] != 0\n"},
]
BENIGN = [
    {"id": "c20-b-get-stat-keeps-arrays-refreshed-on-record", "file": 'rl_blox/logging/logger.py', "nth": 1, "edits": [('        x = np.asarray(list(map(lambda x: x[x_idx], self.stats_loc[key])))\n        y = np.asarray(self.stats[key])\n        return x, y\n', '        kept = self.__dict__.setdefault("_kept", {})\n        if (key, x_key) not in kept:\n            kept[(key, x_key)] = (np.asarray(list(map(lambda x: x[x_idx], self.stats_loc[key]))), np.asarray(self.stats[key]))\n        return kept[(key, x_key)]\n'), ('        if key not in self.stats:\n            self.stats_loc[key] = []\n            self.stats[key] = []\n        if episode is None:\n            episode = self._n_episodes\n', '        self.__dict__.pop("_kept", None)\n        if key not in self.stats:\n            self.stats_loc[key] = []\n            self.stats[key] = []\n        if episode is None:\n            episode = self._n_episodes\n')]},
    {"id": "c20-b-list-kwargs", "file": _L, "find": "            logger.record_epoch(key, value, episode, step, t)", "replace": "            logger.record_epoch(key, value, episode=episode, step=step, t=t)"},
    {"id": "c20-b-standard-order", "file": _L, "nth": 0, "find": "        self.stats_loc[key].append((episode, step, t))\n        self.stats[key].append(value)", "replace": "        self.stats[key].append(value)\n        self.stats_loc[key].append((episode, step, t))"},
    # forms the rules read by meaning (audit): none of these changes what is recorded, counted, forwarded or saved
    {"id": "c20-b-list-copy-and-slice", "file": _L, "edits": [("        for logger in self.loggers:\n            logger.stop_episode(total_steps)", "        for member in list(self.loggers):\n            member.stop_episode(total_steps)"), ("        for logger in self.loggers:\n            logger.start_new_episode()", "        members = self.loggers[:]\n        for logger in members:\n            logger.start_new_episode()")]},
    {"id": "c20-b-list-mixin", "file": _L, "edits": [("class LoggerList(LoggerBase):\n    \"\"\"Combine multiple loggers.\"\"\"\n\n    loggers: list[LoggerBase]\n\n    def __init__(self, loggers: list[LoggerBase]):\n        assert len(loggers) > 0\n        self.loggers = loggers\n", "class _FanOut(LoggerBase):\n    loggers: list[LoggerBase]\n"),
                                                    ("            logger.record_epoch(key, value, episode, step, t)\n", "            logger.record_epoch(key, value, episode, step, t)\n\n\nclass LoggerList(_FanOut):\n    \"\"\"Combine multiple loggers.\"\"\"\n\n    def __init__(self, loggers: list[LoggerBase]):\n        assert len(loggers) > 0\n        self.loggers = loggers\n")]},
    {"id": "c20-b-memory-setdefault-alias", "file": _L, "nth": 1, "find": "        self.stats_loc[key].append((episode, step, t))\n        self.stats[key].append(value)\n\n", "replace": "        self.stats_loc.setdefault(key, []).append((episode, step, t))\n        series = self.stats[key]\n        series.append(value)\n        assert len(self.stats[key]) == len(self.stats_loc[key])\n\n"},
    {"id": "c20-b-memory-renamed-parameters", "file": _L, "nth": 1, "find": "        if key not in self.stats:\n            self.stats_loc[key] = []\n            self.stats[key] = []\n        if episode is None:\n            episode = self._n_episodes\n        if step is None:\n            step = self.n_steps\n        if t is None:\n            t = time.time() - self.start_time\n        self.stats_loc[key].append((episode, step, t))\n        self.stats[key].append(value)\n\n",
     "replace": "        self._record(key, value, episode, step, t)\n\n    def _record(self, name, val, ep, st, now):\n        if name not in self.stats:\n            self.stats_loc[name] = []\n            self.stats[name] = []\n        if ep is not None:\n            pass\n        else:\n            ep = self._n_episodes\n        st = st if st is not None else self.n_steps\n        if now is None:\n            now = time.time() - self.start_time\n        self.stats_loc[name] += [(ep, st, now)]\n        self.stats[name] += [val]\n\n"},
    {"id": "c20-b-x-keys-module-constant", "file": _L, "all": True, "edits": [("class LoggerBase(abc.ABC):\n    \"\"\"Logger interface", "X_KEYS = (\"episode\", \"step\", \"time\")\n\n\nclass LoggerBase(abc.ABC):\n    \"\"\"Logger interface"), ("        assert key in self.stats\n        X_KEYS = [\"episode\", \"step\", \"time\"]\n", "        assert key in self.stats, (\"unknown\", \"key\", \"given\")\n")]},
    {"id": "c20-b-counters-helper-and-local", "file": _L, "edits": [("        self.hparams = None\n        self._n_episodes = 0\n        self.n_steps = 0\n        self.stats_loc = {}\n        self.stats = {}\n\n    @property", "        self.hparams = None\n        self.reset_counters()\n        self.stats_loc = {}\n        self.stats = {}\n\n    def reset_counters(self):\n        self._n_episodes = self.n_steps = 0\n\n    @property"),
                                                                   ("        return self._n_episodes\n\n    def start_new_episode(self):\n        \"\"\"Register start of new episode.\"\"\"\n        self._n_episodes += 1\n\n    def stop_episode(self, total_steps: int):\n        \"\"\"Register end of episode.\n\n        Increase step counter and records 'episode_length'.\n\n        Parameters\n        ----------\n        total_steps : int\n            Total number of steps in the episode that just terminated.\n        \"\"\"\n        self.n_steps += total_steps\n        self.record_stat(\"episode_length\", total_steps, verbose=0)\n\n    def define_experiment(\n        self,\n        env_name: str | None = None,\n        algorithm_name: str | None = None,\n        hparams: dict | None = None,\n    ):\n        \"\"\"Define the experiment.\n\n        Parameters\n        ----------\n        env_name : str, optional\n            The name of the gym environment.\n\n        algorithm_name : str, optional\n            The name of the reinforcement learning algorithm.\n\n        hparams : dict, optional\n            Hyperparameters of the experiment.\n        \"\"\"\n        self.env_name = env_name\n        self.algorithm_name = algorithm_name\n        self.start_time = time.time()\n        self.hparams = hparams\n",
                                                                    "        return self._n_episodes\n\n    def start_new_episode(self):\n        \"\"\"Register start of new episode.\"\"\"\n        n = self._n_episodes + 1\n        self._n_episodes = n\n\n    def stop_episode(self, total_steps: int):\n        \"\"\"Register end of episode.\n\n        Increase step counter and records 'episode_length'.\n\n        Parameters\n        ----------\n        total_steps : int\n            Total number of steps in the episode that just terminated.\n        \"\"\"\n        steps = int(total_steps)\n        self.n_steps = self.n_steps + steps\n        self.record_stat(\"episode_length\", total_steps, verbose=0)\n\n    def define_experiment(\n        self,\n        env_name: str | None = None,\n        algorithm_name: str | None = None,\n        hparams: dict | None = None,\n    ):\n        \"\"\"Define the experiment.\n\n        Parameters\n        ----------\n        env_name : str, optional\n            The name of the gym environment.\n\n        algorithm_name : str, optional\n            The name of the reinforcement learning algorithm.\n\n        hparams : dict, optional\n            Hyperparameters of the experiment.\n        \"\"\"\n        self.env_name = env_name\n        self.algorithm_name = algorithm_name\n        self.start_time = time.time()\n        self.hparams = hparams\n")], "nth": 1},
    {"id": "c20-b-counting-base-class", "file": _L, "edits": [("class StdoutLogger(LoggerBase):", "class _Counting(LoggerBase):\n    def start_new_episode(self):\n        self._n_episodes += 1\n\n    def stop_episode(self, total_steps: int):\n        self.n_steps += total_steps\n\n\nclass StdoutLogger(_Counting):"), ("        self.n_steps += total_steps\n\n    def define_experiment(", "        super().stop_episode(total_steps)\n\n    def define_experiment(")]},
    {"id": "c20-b-save-keywords-aliases", "file": _L, "find": "        self.checkpointer.save(f\"{checkpoint_path}\", state)\n        self.checkpointer.wait_until_finished()\n        self.checkpoint_path[key].append(checkpoint_path)", "replace": "        cp = self.checkpointer\n        cp.wait_until_finished()\n        target = checkpoint_path\n        cp.save(directory=f\"{target}\", state=state)\n        cp.wait_until_finished()\n        listed = self.checkpoint_path[key]\n        listed.append(target)"},
    {"id": "c20-b-orbax-wait-before-and-keywords", "file": _C, "edits": [("        self.checkpointer.save(path, state)\n", "        self.checkpointer.wait_until_finished()\n        self.checkpointer.save(path, state)\n"), ("        self.save_model(checkpoint_path, value)\n", "        self.save_model(model=value, path=checkpoint_path)\n")]},
    {"id": "c20-b-orbax-guard-clause", "file": _C, "edits": [("        if key in self.checkpoint_frequencies:\n            # check if the step counter wrapped around as we cannot rely on\n            # x % y == 0 because of delayed updates (e.g., for the policy)\n            if (\n                self.last_step[key] % self.checkpoint_frequencies[key]\n                > step % self.checkpoint_frequencies[key]\n            ) or (\n                (step - self.last_step[key]) >= self.checkpoint_frequencies[key]\n            ):\n                self._save_checkpoint(key, value, step)\n\n        self.last_step[key] = step\n",
                                                             "        if key not in self.checkpoint_frequencies:\n            self.last_step[key] = step\n            return\n        interval = self.checkpoint_frequencies[key]\n        last = self.last_step[key]\n        if not (last % interval <= step % interval and step - last < interval):\n            self._save_checkpoint(key, value, step)\n        print(\"previous step\", last)\n        last_steps = self.last_step\n        last_steps[key] = step\n"),
                                                            ("        self.checkpoint_frequencies[key] = checkpoint_interval\n        self.checkpoint_path[key] = []\n        self.last_step[key] = 0\n", "        self.last_step[key], self.checkpoint_path[key] = 0, list()\n        self.checkpoint_frequencies[key] = int(checkpoint_interval)\n")]},
    {"id": "c20-b-standard-swapped-test", "file": _L, "edits": [("        if (\n            key in self.checkpoint_frequencies\n            and self.epoch[key] % self.checkpoint_frequencies[key] == 0\n        ):\n            self._save_checkpoint(key, value)\n", "        if (\n            key not in self.checkpoint_frequencies\n            or self.epoch[key] % self.checkpoint_frequencies[key] != 0\n        ):\n            pass\n        else:\n            self._save_checkpoint(key=key, value=value)\n"),
                                                                ("        if key not in self.epoch:\n            self.epoch_loc[key] = []\n            self.epoch[key] = 0\n            self.lpad_keys = max(self.lpad_keys, len(key))\n", "        if key not in self.epoch_loc:\n            self.epoch_loc[key] = []\n            self.epoch[key] = 0\n            self.lpad_keys = max(self.lpad_keys, len(key))\n"),
                                                                ("        self.epoch[key] += 1\n        if self.verbose:", "        count = self.epoch[key] = self.epoch[key] + 1\n        assert count > 0\n        if self.verbose:")]},
]

# ---------------------------------------------------------------------------------------------------------------------------
# overlays for: fan-out through comprehensions / early exits (R1 every-member-reached), record_stat through `.get` + chained creation
# (R2), the interval looked up with `.get` (R5 standard), a cadence written as a bound on the step (R5 due-threshold-follows-step)
_FAN_STOP = "        for logger in self.loggers:\n            logger.stop_episode(total_steps)"
_FAN_START = "        for logger in self.loggers:\n            logger.start_new_episode()"
_FAN_EPOCH = "        for logger in self.loggers:\n            logger.record_epoch(key, value, episode, step, t)"
_STD_SAVE = """        if (
            key in self.checkpoint_frequencies
            and self.epoch[key] % self.checkpoint_frequencies[key] == 0
        ):
            self._save_checkpoint(key, value)
"""
_MEM_RECORD = """        if key not in self.stats:
            self.stats_loc[key] = []
            self.stats[key] = []
        if episode is None:
            episode = self._n_episodes
        if step is None:
            step = self.n_steps
        if t is None:
            t = time.time() - self.start_time
        self.stats_loc[key].append((episode, step, t))
        self.stats[key].append(value)

    def get_stat"""


def _mem_record(lookup, record):
    return lookup + """        if episode is None:
            episode = self._n_episodes
        if step is None:
            step = self.n_steps
        if t is None:
            t = time.time() - self.start_time
""" + record + "\n    def get_stat"


_MEM_LOOKUP = """        series = self.stats.get(key)
        if series is None:
            where = self.stats_loc[key] = []
            series = self.stats[key] = list()
        else:
            where = self.stats_loc[key]
"""
_ORBAX_CADENCE = """        if key in self.checkpoint_frequencies:
            # check if the step counter wrapped around as we cannot rely on
            # x % y == 0 because of delayed updates (e.g., for the policy)
            if (
                self.last_step[key] % self.checkpoint_frequencies[key]
                > step % self.checkpoint_frequencies[key]
            ) or (
                (step - self.last_step[key]) >= self.checkpoint_frequencies[key]
            ):
                self._save_checkpoint(key, value, step)

        self.last_step[key] = step
"""
_ORBAX_INIT = ("        self.last_step[key] = 0\n", "        self.last_step[key] = checkpoint_interval\n")
MUTANTS += [
    {"id": "c20-list-all-of-none", "file": _L, "rule": "R1", "find": _FAN_STOP, "replace": "        all(member.stop_episode(total_steps) for member in self.loggers)"},
    {"id": "c20-list-break-after-first", "file": _L, "rule": "R1", "find": _FAN_START, "replace": _FAN_START + "\n            break"},
    {"id": "c20-list-stops-at-false-result", "file": _L, "rule": "R1", "find": _FAN_STOP, "replace": "        for member in self.loggers:\n            done = member.stop_episode(total_steps)\n            if not done:\n                return done"},
    {"id": "c20-list-first-saver-wins", "file": _L, "rule": "R1", "edits": [(_STD_SAVE, _STD_SAVE + "            return True\n        return False\n"), (_FAN_EPOCH, "        for member in self.loggers:\n            if member.record_epoch(key, value, episode, step, t):\n                return True\n        return False")]},
    {"id": "c20-list-any-saver", "file": _L, "rule": "R1", "edits": [(_STD_SAVE, _STD_SAVE + "            return True\n        return False\n"), (_FAN_EPOCH, "        saved = any(m.record_epoch(key, value, episode, step, t) for m in tuple(self.loggers))\n        return saved")]},
    {"id": "c20-list-accumulator-and", "file": _L, "rule": "R1", "find": _FAN_STOP, "replace": "        fine = True\n        for member in self.loggers:\n            fine = fine and member.stop_episode(total_steps)\n        return fine"},
    {"id": "c20-list-accumulator-or-saver", "file": _L, "rule": "R1", "edits": [(_STD_SAVE, _STD_SAVE + "            return True\n        return False\n"), (_FAN_EPOCH, "        hit = False\n        for member in self.loggers:\n            hit = hit or member.record_epoch(key, value, episode, step, t)\n        return hit")]},
    {"id": "c20-list-comprehension-tail", "file": _L, "rule": "R1", "find": _FAN_STOP, "replace": "        [member.stop_episode(total_steps) for member in self.loggers[1:]]"},
    {"id": "c20-list-comprehension-constant", "file": _L, "rule": "R1", "find": _FAN_STOP, "replace": "        return [member.stop_episode(1) for member in self.loggers]"},
    {"id": "c20-memory-get-skips-first-value", "file": _L, "rule": "R2", "find": _MEM_RECORD, "replace": _mem_record(_MEM_LOOKUP, "        where.append((episode, step, t))\n        if series:\n            series.append(value)\n")},
    {"id": "c20-memory-get-tuple-order", "file": _L, "rule": "R2", "find": _MEM_RECORD, "replace": _mem_record(_MEM_LOOKUP, "        where.append((step, episode, t))\n        series.append(value)\n")},
    {"id": "c20-standard-get-not-due", "file": _L, "rule": "R5", "find": _STD_SAVE, "replace": "        every = self.checkpoint_frequencies.get(key)\n        if every is not None and self.epoch[key] % every != 0:\n            self._save_checkpoint(key, value)\n"},
    {"id": "c20-orbax-due-plus-interval", "file": _C, "rule": "R5", "edits": [(_ORBAX_CADENCE, "        if key not in self.checkpoint_frequencies:\n            return\n        due = self.last_step[key]\n        if step < due:\n            return\n        self._save_checkpoint(key, value, step)\n        self.last_step[key] = due + self.checkpoint_frequencies[key]\n"), _ORBAX_INIT]},
    {"id": "c20-orbax-gap-as-bound-strict", "file": _C, "rule": "R5", "find": _ORBAX_CADENCE, "replace": "        if key in self.checkpoint_frequencies:\n            every = self.checkpoint_frequencies[key]\n            before = self.last_step[key]\n            if before + every < step or before % every > step % every:\n                self._save_checkpoint(key, value, step)\n        self.last_step[key] = step\n"},
    {"id": "c20-orbax-save-counter", "file": _C, "rule": "R5", "find": _ORBAX_CADENCE, "replace": "        if key in self.checkpoint_frequencies and step >= (self.last_step[key] + 1) * self.checkpoint_frequencies[key]:\n            self._save_checkpoint(key, value, step)\n            self.last_step[key] += 1\n"},
]
BENIGN += [
    {"id": "c20-b-list-comprehensions", "file": _L, "edits": [(_FAN_START, "        [member.start_new_episode() for member in self.loggers]"), (_FAN_STOP, "        _ = list(m.stop_episode(total_steps=total_steps) for m in self.loggers)"), (_FAN_EPOCH, "        members = tuple(self.loggers)\n        results = [m.record_epoch(key, value, episode, step=step, t=t) for m in members]\n        return None if results else None")]},
    {"id": "c20-b-list-any-of-none", "file": _L, "edits": [(_FAN_STOP, "        any(m.stop_episode(total_steps) for m in self.loggers)"), (_FAN_START, "        for member in self.loggers:\n            if member.start_new_episode():\n                break\n        return None")]},
    {"id": "c20-b-list-accumulators", "file": _L, "edits": [(_STD_SAVE, _STD_SAVE + "            return True\n        return False\n"), (_FAN_EPOCH, "        hit = False\n        for member in self.loggers:\n            hit = member.record_epoch(key, value, episode, step, t) or hit\n        return hit"),
                                                          (_FAN_STOP, "        seen = False\n        for member in self.loggers:\n            seen = seen or member.stop_episode(total_steps)\n        return None")]},
    {"id": "c20-b-list-inner-break-and-other-comprehension", "file": _L, "find": _FAN_STOP, "replace": "        kinds = [type(m).__name__ for m in self.loggers]\n        assert len(kinds) == len(self.loggers)\n        for m in self.loggers:\n            for _ in range(1):\n                break\n            m.stop_episode(total_steps)"},
    {"id": "c20-b-memory-get-and-chained-creation", "file": _L, "find": _MEM_RECORD, "replace": _mem_record(_MEM_LOOKUP, "        where.append((episode, step, t))\n        series.append(value)\n")},
    {"id": "c20-b-memory-get-inverted", "file": _L, "find": _MEM_RECORD, "replace": _mem_record("        series = self.stats.get(key, None)\n        if series is not None:\n            where = self.stats_loc.get(key)\n        else:\n            series = self.stats[key] = []\n            where = self.stats_loc[key] = []\n", "        series.append(value)\n        where += [(episode, step, t)]\n")},
    {"id": "c20-b-standard-interval-by-get", "file": _L, "find": _STD_SAVE, "replace": "        every = self.checkpoint_frequencies.get(key)\n        if every is None:\n            return\n        if self.epoch[key] % every != 0:\n            return\n        self._save_checkpoint(key, value)\n"},
    {"id": "c20-b-standard-interval-by-get-default", "file": _L, "find": _STD_SAVE, "replace": "        every = self.checkpoint_frequencies.get(key, 0)\n        if every and not self.epoch[key] % every:\n            self._save_checkpoint(key, value)\n"},
    {"id": "c20-b-orbax-gap-as-bound", "file": _C, "find": _ORBAX_CADENCE, "replace": "        if key in self.checkpoint_frequencies:\n            every = self.checkpoint_frequencies[key]\n            before = self.last_step[key]\n            if step >= before + every or before % every > step % every:\n                self._save_checkpoint(key, value, step)\n        self.last_step[key] = step\n"},
]
