"""Small semantic helpers shared by the property modules: canonical guards, call binding by meaning, path counting.

They exist so that rules compare *meaning* (normal forms, dataflow, dominance) and never source text: a rule that
matched text would fire on behaviour-preserving edits.  Every helper either answers or raises AnalysisError
("unrecognised idiom"), it never guesses.
"""
from __future__ import annotations

import ast
from fractions import Fraction

from .loops import dotted
from .nf import NF, Scope, Poly, parse_expr
from .repo import AnalysisError, short

_NEG = {"Lt": "LtE", "LtE": "Lt", "Eq": "NotEq", "NotEq": "Eq", "Is": "IsNot", "IsNot": "Is", "In": "NotIn", "NotIn": "In"}


def canon_expr(nf: NF, mi, e, cfg=None, at=None, env=None, qual="sem") -> str:
    return nf.poly(e, Scope(cfg, mi, env or {}, qual), at).canon()


def spec(nf: NF, mi, text: str, env=None) -> str:
    return nf.poly(parse_expr(text), Scope(None, mi, env or {}, "spec"), None).canon()


def _flatten_and(txt: str) -> list[str]:
    """and(a, b) -> [a, b] on canonical text (top level only, parenthesis aware)."""
    if not (txt.startswith("and(") and txt.endswith(")")):
        return [txt]
    body, out, depth, cur = txt[4:-1], [], 0, ""
    for ch in body:
        if ch in "([{":
            depth += 1
        elif ch in ")]}":
            depth -= 1
        if ch == "," and depth == 0:
            out.append(cur.strip())
            cur = ""
        else:
            cur += ch
    if cur.strip():
        out.append(cur.strip())
    res = []
    for o in out:
        res += _flatten_and(o)
    return res


def _negate(c: str) -> str:
    for k, v in _NEG.items():
        if c.startswith(k + "("):
            # swap arguments for strict/non-strict flips so that the canonical orientation (Lt / LtE only) is kept
            inner = c[len(k) + 1:-1]
            if k in ("Lt", "LtE"):
                a, b = _split2(inner)
                return f"{v}({b}, {a})"
            return f"{v}({inner})"
    if c.startswith("not(") and c.endswith(")"):
        return c[4:-1]
    return f"not({c})"


def _split2(inner: str):
    depth = 0
    for i, ch in enumerate(inner):
        if ch in "([{":
            depth += 1
        elif ch in ")]}":
            depth -= 1
        elif ch == "," and depth == 0:
            return inner[:i].strip(), inner[i + 1:].strip()
    return inner, ""


def rejects_input(if_stmt: ast.If, taken: bool) -> bool:
    """`if <unsupported input>: raise ...` seen from the arm that goes on (``taken``): the other arm ends in a raise and leaves the routine in no
    other way.  The routine rejects such an input as a whole - that restricts the inputs it runs on, it is not a condition under which a
    later statement is skipped while the routine goes on."""
    other = if_stmt.orelse if taken else if_stmt.body
    return bool(other) and isinstance(other[-1], ast.Raise) and not any(isinstance(x, (ast.Return, ast.Continue, ast.Break)) for st_ in other for x in ast.walk(st_))


def guard_literals(nf: NF, cfg, mi, node_id: int, drop_loops: bool = True, inline: bool = False) -> list[str]:
    """Canonical literals that hold whenever ``node_id`` executes (control dependence, aliases expanded, and() flattened).

    Comparison literals are oriented (Lt/LtE only, Eq/NotEq sorted by the NF engine); a False branch is negated semantically."""
    out = []
    sc = Scope(None, mi, {}, "guard")
    for b, lab in cfg.control_deps(node_id):
        bn = cfg.nodes[b]
        if bn.kind != "test" or not hasattr(bn.ast, "test") or isinstance(bn.ast, (ast.While,)):
            continue
        for txt, truth in cfg._lits(bn.ast.test, lab, b):
            if txt.isidentifier() and cfg._expand_name(ast.Name(id=txt, ctx=ast.Load()), b) is not None:
                continue  # alias of an expression that is listed itself
            try:
                e = ast.parse(txt, mode="eval").body
            except SyntaxError:
                raise AnalysisError(f"guard `{txt}` cannot be parsed")
            c = nf.poly(e, Scope(cfg, mi, {}, "guard"), b).canon() if inline else nf.poly(e, sc, None).canon()
            parts = _flatten_and(c) if truth else None
            if truth:
                out += parts
            else:
                fl = _flatten_and(c)
                if len(fl) == 1:
                    out.append(_negate(c))
                else:
                    out.append(f"not({c})")
    # flow-based supplement: a branch that dominates the node and from only one of whose arms the node is reachable
    # (`if bad: raise ...` / early return / continue before the node)
    syntactic = {b for b, _ in cfg.control_deps(node_id)}
    rd = cfg.reaching()
    for bn in cfg.nodes:
        if bn.kind != "test" or not isinstance(bn.ast, ast.If) or bn.id in syntactic or bn.id == node_id or not cfg.dominates(bn.id, node_id):
            continue
        reach = {lab: cfg.paths_avoiding(bn.id, node_id, set(), feasible=False, first_label=lab) is not None for lab in (True, False)}
        if reach[True] == reach[False]:
            continue
        lab = True if reach[True] else False
        names = {x.id for x in ast.walk(bn.ast.test) if isinstance(x, ast.Name)}
        if not all(rd[node_id].get(nm) == rd[bn.id].get(nm) for nm in names):
            continue
        for txt, truth in cfg._lits(bn.ast.test, lab, bn.id):
            if txt.isidentifier() and cfg._expand_name(ast.Name(id=txt, ctx=ast.Load()), bn.id) is not None:
                continue
            try:
                e = ast.parse(txt, mode="eval").body
            except SyntaxError:
                continue
            c = nf.poly(e, Scope(cfg, mi, {}, "guard"), bn.id).canon() if inline else nf.poly(e, sc, None).canon()
            if truth:
                out += _flatten_and(c)
            else:
                out.append(_negate(c) if len(_flatten_and(c)) == 1 else f"not({c})")
    res = []
    for g in out:
        if g in ("1", "not(0)") or g in res:
            continue
        res.append(g)
    return res


def on_every_path_once(cfg, node_ids) -> bool:
    """Exactly one of ``node_ids`` is executed on every entry->exit path, and none of them sits in a loop."""
    ids = set(node_ids)
    if not ids:
        return False
    if cfg.paths_avoiding(cfg.entry, cfg.exit, ids) is not None:
        return False
    for a in ids:
        if cfg.enclosing_loops(a):
            return False
        for b in ids:
            if cfg.paths_avoiding(a, b, set()) is not None and a != b:
                return False
        # a node reaching itself again (loop) is excluded by enclosing_loops
    return True


def stmt_calls(cfg, pred):
    """(node, call) for every call expression satisfying ``pred`` in statement / test / with nodes."""
    out = []
    for n in cfg.nodes:
        if n.ast is None or n.kind in ("entry", "exit"):
            continue
        roots = []
        if n.kind == "stmt":
            roots = [n.ast]
        elif n.kind == "test" and hasattr(n.ast, "test"):
            roots = [n.ast.test]
        elif n.kind == "for":
            roots = [n.ast.iter]
        elif n.kind == "with":
            roots = [i.context_expr for i in n.ast.items]
        for r in roots:
            for c in ast.walk(r):
                if isinstance(c, ast.Call) and pred(c):
                    out.append((n, c))
    return out


def arg_of(call: ast.Call, pos: int, *names):
    """Argument passed at position ``pos`` or under one of the keyword ``names``; None if absent."""
    if pos is not None and len(call.args) > pos and not any(isinstance(a, ast.Starred) for a in call.args[: pos + 1]):
        return call.args[pos]
    for k in call.keywords:
        if k.arg in names:
            return k.value
    return None


def recv_canon(nf: NF, cfg, mi, node, call: ast.Call) -> str:
    """Canonical receiver of a method call, local aliases resolved (`b = self.buffers[i]; b.add(..)` -> self.buffers[i])."""
    if not isinstance(call.func, ast.Attribute):
        return ""
    sc = Scope(cfg, mi, {}, "recv")
    sc.inline_self_attrs = False   # `self.x` names the attribute, not the value last assigned to it
    return nf.poly(call.func.value, sc, node.id).canon()


# ---------------------------------------------------------------------------------------------------------------------------
# boolean structure: truth tables over order / equality atoms (finite, no solver)
def _bool_atoms(nf: NF, e, sc, at, atoms: dict):
    """Translate a boolean expression into a nested tuple formula.  Leaves: ("rel", op, a, b) with op in {"lt", "eq"} over canonical
    operand texts (a <= b == not (b < a), a > b == b < a, a >= b == not (a < b)), or ("atom", text) for anything else."""
    if isinstance(e, ast.BoolOp):
        return ("and" if isinstance(e.op, ast.And) else "or", tuple(_bool_atoms(nf, v, sc, at, atoms) for v in e.values))
    if isinstance(e, ast.UnaryOp) and isinstance(e.op, ast.Not):
        return ("not", _bool_atoms(nf, e.operand, sc, at, atoms))
    if isinstance(e, ast.Constant) and isinstance(e.value, bool):
        return ("and", ()) if e.value else ("or", ())
    if isinstance(e, ast.IfExp):
        t = _bool_atoms(nf, e.test, sc, at, atoms)
        return ("or", (("and", (t, _bool_atoms(nf, e.body, sc, at, atoms))), ("and", (("not", t), _bool_atoms(nf, e.orelse, sc, at, atoms)))))
    if isinstance(e, ast.Name) and sc.cfg is not None and at is not None and e.id not in sc.opaque_names:
        rhs = sc.cfg._expand_name(e, at)
        if rhs is None:
            rhs = structured_value(sc.cfg, e.id, at)
        if rhs is not None:
            return _bool_atoms(nf, rhs, sc, at, atoms)
    if isinstance(e, ast.Compare) and len(e.ops) >= 1:
        parts = [e.left] + list(e.comparators)
        conj = []
        for i, op in enumerate(e.ops):
            a, b = nf.poly(parts[i], sc, at).canon(), nf.poly(parts[i + 1], sc, at).canon()
            if isinstance(op, ast.Lt):
                f = ("rel", "lt", a, b)
            elif isinstance(op, ast.Gt):
                f = ("rel", "lt", b, a)
            elif isinstance(op, ast.LtE):
                f = ("not", ("rel", "lt", b, a))
            elif isinstance(op, ast.GtE):
                f = ("not", ("rel", "lt", a, b))
            elif isinstance(op, (ast.Eq, ast.NotEq)):
                f = ("rel", "eq", a, b)
                if isinstance(op, ast.NotEq):
                    f = ("not", f)
            elif isinstance(op, (ast.NotIn, ast.IsNot)):
                pos = ast.In() if isinstance(op, ast.NotIn) else ast.Is()
                f = ("not", ("atom", nf.poly(ast.Compare(left=parts[i], ops=[pos], comparators=[parts[i + 1]]), sc, at).canon()))
            else:
                f = ("atom", nf.poly(ast.Compare(left=parts[i], ops=[op], comparators=[parts[i + 1]]), sc, at).canon())
            conj.append(f)
        return conj[0] if len(conj) == 1 else ("and", tuple(conj))
    c = nf.poly(e, sc, at).canon()
    if isinstance(e, ast.BinOp) and isinstance(e.op, ast.Mod):
        return ("not", ("rel", "eq", "0", c))     # truthiness of x % k
    return ("atom", c)


def structured_value(cfg, name: str, at: int, _depth: int = 0):
    """The value a local has at node ``at`` as one expression, when it is assigned in the arms of preceding if-statements:
    `if c: x = a  else: x = b` -> `a if c else b` (nested ifs nest).  None when some arm leaves the name unassigned, a loop is in the
    way, or an operand of the expression is stored between the assignment and the use."""
    node = cfg.nodes[at]
    st = node.ast
    if st is None:
        return None

    def assigns(s_):
        return any(isinstance(x, ast.Name) and x.id == name and isinstance(x.ctx, ast.Store) for x in ast.walk(s_))

    def from_block(block):
        for s_ in reversed(block):
            if not assigns(s_):
                continue
            if isinstance(s_, ast.Assign) and len(s_.targets) == 1 and isinstance(s_.targets[0], ast.Name) and s_.targets[0].id == name:
                return s_.value, s_
            if isinstance(s_, ast.If):
                a, b = from_block(s_.body), from_block(s_.orelse)
                if a is None or b is None:
                    # an arm that does not assign keeps the earlier value: look before the if
                    return None
                return ast.IfExp(test=s_.test, body=a[0], orelse=b[0]), s_
            return None
        return None
    child = st
    parent = getattr(child, "_parent", None)
    while parent is not None and not isinstance(parent, (ast.FunctionDef, ast.Lambda)):
        for field in ("body", "orelse", "finalbody"):
            blk = getattr(parent, field, None)
            if isinstance(blk, list) and any(child is x for x in blk):
                idx = next(i for i, x in enumerate(blk) if x is child)
                r = from_block(blk[:idx])
                if r is not None:
                    val, src_stmt = r
                    return _stable_between(cfg, val, src_stmt, st, name)
                if any(assigns(x) for x in blk[:idx]):
                    return None
        if isinstance(parent, (ast.For, ast.While, ast.AsyncFor, ast.Try, ast.With)):
            return None
        child, parent = parent, getattr(parent, "_parent", None)
    if isinstance(parent, ast.FunctionDef):
        blk = parent.body
        if any(child is x for x in blk):
            idx = next(i for i, x in enumerate(blk) if x is child)
            r = from_block(blk[:idx])
            if r is not None:
                return _stable_between(cfg, r[0], r[1], st, name)
    return None


def _stable_between(cfg, val, src_stmt, use_stmt, name):
    names = {x.id for x in ast.walk(val) if isinstance(x, ast.Name)} - {name}
    attrs = {ast.unparse(x) for x in ast.walk(val) if isinstance(x, (ast.Attribute, ast.Subscript))}
    lo, hi = getattr(src_stmt, "end_lineno", getattr(src_stmt, "lineno", 0)), getattr(use_stmt, "lineno", 0)
    fn = cfg.fn
    for x in ast.walk(fn):
        ln = getattr(x, "lineno", None)
        if ln is None or not (lo < ln < hi):
            continue
        if isinstance(x, ast.Name) and isinstance(x.ctx, ast.Store) and x.id in names:
            return None
        if isinstance(x, (ast.Attribute, ast.Subscript)) and isinstance(x.ctx, ast.Store) and any(ast.unparse(x) == a_ or a_.startswith(ast.unparse(x)) for a_ in attrs):
            return None
    ast.fix_missing_locations(ast.copy_location(val, use_stmt)) if not hasattr(val, "lineno") else None
    return val


def _leaves(f):
    if f[0] in ("atom", "rel"):
        return [f]
    if f[0] == "not":
        return _leaves(f[1])
    return [x for g in f[1] for x in _leaves(g)]


def _eval(f, val):
    if f[0] == "atom":
        return val[("atom", f[1])]
    if f[0] == "rel":
        a, b = f[2], f[3]
        key = ("pair",) + tuple(sorted((a, b)))
        st = val[key]            # '<' : first < second (sorted order), '=' , '>'
        if a > b:
            st = {"<": ">", ">": "<", "=": "="}[st]
        return st == "<" if f[1] == "lt" else st == "="
    if f[0] == "not":
        return not _eval(f[1], val)
    if f[0] == "and":
        return all(_eval(g, val) for g in f[1])
    return any(_eval(g, val) for g in f[1])


def bool_equiv(nf: NF, mi, e1, e2, cfg1=None, at1=None, cfg2=None, at2=None, max_atoms: int = 8, env1=None, env2=None, opaque1=(), opaque2=()):
    """True / False when the two boolean expressions agree in every world, where a world fixes, for each compared pair of operands,
    one of  a < b, a == b, a > b  (trichotomy) and a truth value for every other atom; None when the two sides are built from
    different operand pairs / atoms (not comparable by this finite model)."""
    import itertools
    s1, s2 = Scope(cfg1, mi, env1 or {}, "b1"), Scope(cfg2, mi, env2 or {}, "b2")
    s1.opaque_names, s2.opaque_names = set(opaque1), set(opaque2)
    f1 = _bool_atoms(nf, e1, s1, at1, {})
    f2 = _bool_atoms(nf, e2, s2, at2, {})

    def keys(f):
        out = set()
        for l in _leaves(f):
            out.add(("atom", l[1]) if l[0] == "atom" else ("pair",) + tuple(sorted((l[2], l[3]))))
        return out
    k1, k2 = keys(f1), keys(f2)
    allk = sorted(k1 | k2)
    if len(allk) > max_atoms:
        return None
    doms = [("<", "=", ">") if k[0] == "pair" else (True, False) for k in allk]
    same = True
    for combo in itertools.product(*doms):
        val = dict(zip(allk, combo))
        if _eval(f1, val) != _eval(f2, val):
            same = False
            break
    if same:
        return True
    return False if k1 == k2 else None


def selector_table(nf: NF, mi, cfg, items, pred_ast, label_true, label_false, opaque=(), max_atoms: int = 8, pred_at=None):
    """Decide whether a branching construct selects by a documented predicate.

    ``items``: [(conditions, label)] - one entry per path; conditions = [(test AST, CFG node id where it is evaluated, taken?)].
    The paths are assumed exhaustive and exclusive (they come from one CFG).  In every world (trichotomy model, see bool_equiv)
    every path whose conditions hold must carry ``label_true`` if the predicate holds and ``label_false`` otherwise.
    Returns (True, None) | (False, witness world) | (None, reason)."""
    import itertools
    sc = Scope(cfg, mi, {}, "sel")
    sc.opaque_names = set(opaque)
    forms = []
    for conds, label in items:
        fs = []
        for test, at, taken in conds:
            f = _bool_atoms(nf, test, sc, at, {})
            fs.append(f if taken else ("not", f))
        forms.append((("and", tuple(fs)) if fs else ("and", ()), label))
    if pred_at is not None:
        ps = Scope(cfg, mi, {}, "pred")
        ps.opaque_names = set(opaque)
    else:
        ps = Scope(None, mi, {}, "pred")
    pf = _bool_atoms(nf, pred_ast, ps, pred_at, {})

    def keys(f):
        return {("atom", l[1]) if l[0] == "atom" else ("pair",) + tuple(sorted((l[2], l[3]))) for l in _leaves(f)}
    kp = keys(pf)
    ki = set().union(*[keys(f) for f, _ in forms]) if forms else set()
    if not kp <= ki:
        return None, f"the documented predicate compares {sorted(kp - ki)[:2]}, which the code does not"
    extra = ki - kp
    allk = sorted(ki)
    if len(allk) > max_atoms:
        return None, "too many atoms"
    doms = [("<", "=", ">") if k[0] == "pair" else (True, False) for k in allk]
    for combo in itertools.product(*doms):
        val = dict(zip(allk, combo))
        want = label_true if _eval(pf, val) else label_false
        for f, label in forms:
            if _eval(f, val) and label != want:
                if extra:
                    return None, f"selection also depends on {sorted(extra)[:2]}"
                return False, {str(k[1:] if k[0] == 'pair' else k[1]): v for k, v in val.items()}
    return True, None


TREE_MAPS = ("jax.tree.map", "jax.tree_util.tree_map", "jax.tree_map", "jax.tree_util.tree_multimap")


def _strip_none_guards(e):
    """`None if x is None else E` / `E if x is not None else None` -> E (pytree leaves that are None stay None)."""
    if isinstance(e, ast.IfExp) and isinstance(e.test, ast.Compare) and len(e.test.ops) == 1 and isinstance(e.test.ops[0], (ast.Is, ast.IsNot)) \
            and isinstance(e.test.comparators[0], ast.Constant) and e.test.comparators[0].value is None:
        none_arm, other = (e.body, e.orelse) if isinstance(e.test.ops[0], ast.Is) else (e.orelse, e.body)
        if isinstance(none_arm, ast.Constant) and none_arm.value is None:
            return _strip_none_guards(other)
    return e


def leaf_application(repo, mi, fexpr, trees, cfg=None, at=None):
    """Expression computed for one tuple of leaves by `tree_map(fexpr, *trees)`: the leaf function's result with its parameters
    replaced by the tree expressions (leaf-wise reading).  fexpr: lambda, repo function, functools.partial over one of them, or a
    local name bound once to one of these.  Raises AnalysisError when the leaf function cannot be read."""
    from .expand import _as_expression, _Rename, clone
    prefix, kws = [], {}
    f = fexpr
    for _ in range(4):
        if isinstance(f, ast.Name) and cfg is not None and at is not None:
            ds = cfg.defs_of(at, f.id)
            if len(ds) == 1 and ds[0].kind == "assign" and isinstance(ds[0].value, (ast.Lambda, ast.Call, ast.Name, ast.Attribute)):
                f, at = ds[0].value, ds[0].node
                continue
        if isinstance(f, ast.Call) and repo.resolve_expr(mi, f.func) in ("functools.partial", "jax.tree_util.Partial"):
            prefix = list(f.args[1:]) + prefix
            kws.update({k.arg: k.value for k in f.keywords if k.arg})
            f = f.args[0]
            continue
        break
    if isinstance(f, ast.Lambda):
        a, body = f.args, f.body
    else:
        q = repo.resolve_expr(mi, f) if isinstance(f, (ast.Name, ast.Attribute)) else None
        if not (q and q.startswith(repo.PKG + ".") and repo.has(q)):
            raise AnalysisError(f"leaf function `{short(fexpr, 60)}` of the tree map cannot be read")
        _, fn = repo.lookup(q)
        if not isinstance(fn, ast.FunctionDef):
            raise AnalysisError(f"leaf function `{short(fexpr, 60)}` is not a function")
        a = fn.args
        body = _as_expression([x for x in fn.body if not (isinstance(x, ast.Expr) and isinstance(x.value, ast.Constant))], {})
        if body is None:
            raise AnalysisError(f"leaf function {q} is not a single expression")
    params = [x.arg for x in a.posonlyargs + a.args]
    binding = dict(zip(params, prefix + list(trees)))
    for k, v in kws.items():
        if k in binding:
            raise AnalysisError(f"leaf function `{short(fexpr, 60)}`: parameter {k} bound twice")
        binding[k] = v
    defaults = dict(zip(params[len(params) - len(a.defaults):], a.defaults))
    for x, d in zip(a.kwonlyargs, a.kw_defaults):
        if x.arg not in binding and d is not None:
            defaults[x.arg] = d
    for p in params + [x.arg for x in a.kwonlyargs]:
        if p not in binding:
            if p in defaults:
                binding[p] = defaults[p]
            else:
                raise AnalysisError(f"leaf function `{short(fexpr, 60)}`: parameter {p} is not bound by the tree map")
    out = _Rename(binding).visit(clone(body))
    return _strip_none_guards(ast.fix_missing_locations(out))


# ---------------------------------------------------------------------------------------------------------------------------
# order worlds: a finite model for code that only *compares* numeric quantities
class Unknown(Exception):
    """A comparison that the order model cannot place (operands outside the declared clusters)."""

    def __init__(self, msg, poly=None):
        super().__init__(msg)
        self.poly = poly


def _weak_orderings(n: int):
    """All assignments of ranks to n items (ordered set partitions): 1, 3, 13, 75 for n = 1..4."""
    if n == 0:
        yield ()
        return
    import itertools
    for k in range(1, n + 1):
        for ranks in itertools.product(range(k), repeat=n):
            if set(ranks) == set(range(k)):
                yield ranks


class OrderModel:
    """Worlds = one weak ordering per cluster of terms (polynomials); the sign of a difference a - b is read off the ranks of two terms
    of one cluster with x - y == +-(a - b).  Derived atoms (min / max of two cluster terms) are replaced by the term the world selects.
    No solver: the worlds are enumerated (a few hundred) and every comparison is evaluated by table lookup."""

    def __init__(self):
        self.clusters = []      # [(terms: list[Poly], constraint: callable(ranks) -> bool | None)]
        self.derived = {}       # atom text -> ("min" | "max", cluster index, i, j)
        self.pos_atoms = set()  # atoms declared strictly positive: a comparison may be multiplied through by them

    def cluster(self, terms, constraint=None):
        self.clusters.append((list(terms), constraint))
        return len(self.clusters) - 1

    def derive(self, atom_text: str, kind: str, ci: int, i: int, j: int):
        self.derived[atom_text] = (kind, ci, i, j)

    def extend_free(self, d: Poly, base_atoms: set) -> bool:
        """Add the comparison `d <> 0` as an independent two-term cluster (positive part vs negative part) when that is sound:
        d is a polynomial of entry-state atoms and contains an atom that no other cluster mentions, so every relation of the new
        pair can be realised without disturbing the relations of the existing clusters."""
        if d is None or not d.atoms() or not d.atoms() <= base_atoms:
            return False
        used = set()
        for terms, _c in self.clusters:
            for t in terms:
                used |= t.atoms()
        if not (d.atoms() - used):
            return False
        pos = Poly({m: c for m, c in d.terms.items() if c > 0})
        neg = Poly({m: -c for m, c in d.terms.items() if c < 0})
        self.cluster([pos, neg])
        return True

    def worlds(self):
        import itertools
        per = []
        for terms, cons in self.clusters:
            per.append([r for r in _weak_orderings(len(terms)) if cons is None or cons(r)])
        for combo in itertools.product(*per):
            yield combo

    def resolve(self, world, p: Poly) -> Poly:
        """p with derived atoms replaced by the selected term, and atomic cluster terms replaced by the first term of equal rank
        (so that values that coincide in this world have one normal form)."""
        m = {}
        for a in p.atoms():
            d = self.derived.get(a)
            if d:
                kind, ci, i, j = d
                ri, rj = world[ci][i], world[ci][j]
                pick = i if ((ri <= rj) if kind == "min" else (ri >= rj)) else j
                m[a] = self.clusters[ci][0][pick]
        if m:
            p = p.subst(m)
        rep = {}
        for ci, (terms, _c) in enumerate(self.clusters):
            for i, x in enumerate(terms):
                ax = x.single_atom()
                if ax is None:
                    continue
                for j in range(i):
                    if world[ci][j] == world[ci][i] and (terms[j].single_atom() is not None or terms[j].is_const()):
                        rep[ax] = terms[j]
                        break
        return p.subst(rep) if rep and any(a in rep for a in p.atoms()) else p

    def positive(self, atom: str):
        self.pos_atoms.add(atom)

    def sign(self, world, d: Poly, _depth: int = 0) -> int:
        d = self.resolve(world, d)
        if d.is_const():
            v = d.const_value()
            return (v > 0) - (v < 0)
        if _depth < 3:
            # clear denominators that are declared positive:  sign(e/delta - 1) == sign(e - delta)
            neg = {}
            for mono in d.terms:
                for a, k in mono:
                    if k < 0 and a in self.pos_atoms:
                        neg[a] = min(neg.get(a, 0), k)
            if neg:
                mult = Poly.const(1)
                for a, k in neg.items():
                    mult = mult * Poly({((a, -k),): Fraction(1)})
                return self.sign(world, d * mult, _depth + 1)
        for ci, (terms, _c) in enumerate(self.clusters):
            for i, x in enumerate(terms):
                for j, y in enumerate(terms):
                    if i == j:
                        continue
                    if self.resolve(world, x) - self.resolve(world, y) == d:
                        ri, rj = world[ci][i], world[ci][j]
                        return (ri > rj) - (ri < rj)
        raise Unknown(d.canon(), d)

    def truth(self, world, nf, p: Poly) -> bool:
        """Truth value of a boolean-valued normal form (comparison atoms, and / or / not over them, constants) in this world."""
        if p.is_const():
            return p.const_value() != 0
        a = p.single_atom()
        m = nf.meta.get(a or "", None)
        if m is not None and m.get("fn") in ("Lt", "LtE", "Eq", "NotEq") and len(m.get("args", [])) == 2:
            x, y = (self.value(world, nf, t) for t in m["args"])
            sg = self.sign(world, x - y)
            return {"Lt": sg < 0, "LtE": sg <= 0, "Eq": sg == 0, "NotEq": sg != 0}[m["fn"]]
        raise Unknown(p.canon(), p)

    def value(self, world, nf, p: Poly, depth: int = 0) -> Poly:
        """The polynomial a piecewise expression equals in this world: min / max / minimum / maximum of two values, where(c, a, b),
        abs(x) and relu(x) are replaced by the selected piece (recursively); other atoms stay."""
        p = self.resolve(world, p)
        if depth > 8:
            return p
        m = {}
        for a in p.atoms():
            meta = nf.meta.get(a)
            if not meta or meta.get("kws"):
                continue
            fn = meta.get("fn", "").split(".")[-1]
            args = meta.get("args", [])
            try:
                if fn in ("min", "minimum", "max", "maximum") and len(args) == 2:
                    x, y = (self.value(world, nf, t, depth + 1) for t in args)
                    sg = self.sign(world, x - y)
                    m[a] = x if ((sg <= 0) if fn.startswith("min") else (sg >= 0)) else y
                elif fn == "clip" and len(args) == 3:
                    # canonical clip(a, b, hi) == minimum(maximum(a, b), hi)
                    x, y, h = (self.value(world, nf, t, depth + 1) for t in args)
                    mx = x if self.sign(world, x - y) >= 0 else y
                    m[a] = mx if self.sign(world, mx - h) <= 0 else h
                elif fn in ("where", "select") and len(args) == 3:
                    m[a] = self.value(world, nf, args[1] if self.truth(world, nf, args[0]) else args[2], depth + 1)
                elif fn in ("abs", "absolute") and len(args) == 1:
                    x = self.value(world, nf, args[0], depth + 1)
                    m[a] = x if self.sign(world, x) >= 0 else -x
                elif fn == "relu" and len(args) == 1:
                    x = self.value(world, nf, args[0], depth + 1)
                    m[a] = x if self.sign(world, x) >= 0 else Poly.const(0)
            except Unknown:
                continue
        return self.resolve(world, p.subst(m)) if m else p

    def describe(self, world) -> str:
        out = []
        for (terms, _c), ranks in zip(self.clusters, world):
            order = sorted(range(len(terms)), key=lambda i: ranks[i])
            s = ""
            for k, i in enumerate(order):
                if k:
                    s += " = " if ranks[i] == ranks[order[k - 1]] else " < "
                s += terms[i].canon()
            out.append(s)
        return "; ".join(out)


def order_formula(nf: NF, e, sc, names: dict | None = None):
    """Boolean expression -> formula over comparisons of polynomials evaluated in scope ``sc`` (a path state):
    ("cmp", "lt" | "eq", A, B), ("truth", P), ("const", bool), ("not", f), ("and" | "or", (f, ...)).  ``names``: boolean locals -> formula."""
    names = names or {}
    if isinstance(e, ast.BoolOp):
        return ("and" if isinstance(e.op, ast.And) else "or", tuple(order_formula(nf, v, sc, names) for v in e.values))
    if isinstance(e, ast.UnaryOp) and isinstance(e.op, ast.Not):
        return ("not", order_formula(nf, e.operand, sc, names))
    if isinstance(e, ast.Name) and e.id in names:
        return names[e.id]
    if isinstance(e, ast.Constant) and isinstance(e.value, bool):
        return ("const", e.value)
    if isinstance(e, ast.Compare):
        parts = [e.left] + list(e.comparators)
        conj = []
        for i, op in enumerate(e.ops):
            a, b = nf.poly(parts[i], sc, None), nf.poly(parts[i + 1], sc, None)
            if isinstance(op, ast.Lt):
                f = ("cmp", "lt", a, b)
            elif isinstance(op, ast.Gt):
                f = ("cmp", "lt", b, a)
            elif isinstance(op, ast.LtE):
                f = ("not", ("cmp", "lt", b, a))
            elif isinstance(op, ast.GtE):
                f = ("not", ("cmp", "lt", a, b))
            elif isinstance(op, ast.Eq):
                f = ("cmp", "eq", a, b)
            elif isinstance(op, ast.NotEq):
                f = ("not", ("cmp", "eq", a, b))
            else:
                f = ("opaque", nf.poly(ast.Compare(left=parts[i], ops=[op], comparators=[parts[i + 1]]), sc, None).canon())
            conj.append(f)
        return conj[0] if len(conj) == 1 else ("and", tuple(conj))
    return ("truth", nf.poly(e, sc, None))


def eval_order_formula(model: OrderModel, world, f) -> bool:
    k = f[0]
    if k == "const":
        return f[1]
    if k == "not":
        return not eval_order_formula(model, world, f[1])
    if k == "and":
        return all(eval_order_formula(model, world, g) for g in f[1])
    if k == "or":
        return any(eval_order_formula(model, world, g) for g in f[1])
    if k == "truth":
        return model.sign(world, f[1]) != 0
    if k == "opaque":
        raise Unknown(f[1])
    s = model.sign(world, f[2] - f[3])
    return s < 0 if f[1] == "lt" else s == 0


# ---------------------------------------------------------------------------------------------------------------------------
# provenance of call results
def whole_result(cfg, name: str, at: int, depth: int = 0):
    """The call whose complete result the variable holds at ``at`` (single definition, through copies), or None."""
    if depth > 6:
        return None
    ds = cfg.defs_of(at, name)
    if len(ds) != 1 or ds[0].kind != "assign":
        return None
    v = ds[0].value
    if isinstance(v, ast.Call):
        return v
    if isinstance(v, ast.Name):
        return whole_result(cfg, v.id, ds[0].node, depth + 1)
    return None


def result_position_def(cfg, d, depth: int = 0):
    """(call, position) when the definition stores one position of a call's (tuple) result - by unpacking, by a constant subscript of a
    variable holding the whole result, or by copying such a variable - else None."""
    if depth > 6:
        return None
    if d.kind == "unpack" and d.path and len(d.path) == 1:
        if isinstance(d.value, ast.Call):
            return d.value, d.path[0]
        if isinstance(d.value, ast.Name):
            c = whole_result(cfg, d.value.id, d.node)
            if c is not None:
                return c, d.path[0]
        return None
    if d.kind == "assign" and isinstance(d.value, ast.Name):
        return result_position(cfg, d.value.id, d.node, depth + 1)
    if d.kind == "assign" and isinstance(d.value, ast.Subscript) and isinstance(d.value.value, ast.Name) and isinstance(d.value.slice, ast.Constant) and isinstance(d.value.slice.value, int):
        c = whole_result(cfg, d.value.value.id, d.node)
        if c is not None:
            return c, d.value.slice.value
    return None


def result_position(cfg, name: str, at: int, depth: int = 0):
    ds = cfg.defs_of(at, name)
    if len(ds) != 1:
        return None
    return result_position_def(cfg, ds[0], depth)


# ---------------------------------------------------------------------------------------------------------------------------
# per-path summaries of a loop-free function for table comparison in an OrderModel
class PathSummary:
    __slots__ = ("path", "conds", "pe", "ret", "ret_elts", "names")


def summarise_paths(nf: NF, cfg, mi, qual: str, env0: dict, store0: dict, self_class=None):
    """Evaluate every acyclic entry->exit path: branch conditions as order formulas in the state at the test, final environment / store,
    returned value (and, for tuple displays, each element as (formula, poly))."""
    from .sympath import enumerate_paths, PathEval
    out = []
    for p in enumerate_paths(cfg, cfg.entry, {cfg.exit}):
        pe = PathEval(nf, cfg, mi, qual, env0, self_class=self_class)
        pe.store = dict(store0)
        sm = PathSummary()
        sm.path, sm.conds, sm.pe, sm.ret, sm.ret_elts, sm.names = p, [], pe, None, None, {}
        for nid, lab in p:
            n = cfg.nodes[nid]
            if n.kind == "test" and hasattr(n.ast, "test") and lab in (True, False):
                f = order_formula(nf, n.ast.test, pe.scope(), sm.names)
                sm.conds.append(f if lab else ("not", f))
            if n.kind == "stmt" and isinstance(n.ast, ast.Assign) and len(n.ast.targets) == 1 and isinstance(n.ast.targets[0], ast.Name):
                v = n.ast.value
                if isinstance(v, (ast.Compare, ast.BoolOp)) or (isinstance(v, ast.UnaryOp) and isinstance(v.op, ast.Not)) or (isinstance(v, ast.Constant) and isinstance(v.value, bool)) \
                        or (isinstance(v, ast.Name) and v.id in sm.names):
                    sm.names[n.ast.targets[0].id] = order_formula(nf, v, pe.scope(), sm.names)
                else:
                    sm.names.pop(n.ast.targets[0].id, None)
            if n.kind == "stmt" and isinstance(n.ast, ast.Return) and n.ast.value is not None:
                rv = n.ast.value
                sm.ret = pe.ev(rv)
                if isinstance(rv, ast.Tuple):
                    sm.ret_elts = [(order_formula(nf, x, pe.scope(), sm.names), pe.ev(x)) for x in rv.elts]
            pe.step(nid, lab)
        out.append(sm)
    return out


def active_summaries(model: OrderModel, world, summaries):
    return [sm for sm in summaries if all(eval_order_formula(model, world, f) for f in sm.conds)]


def ingredient_tokens(p: Poly) -> set:
    import re
    return set(re.findall(r"[A-Za-z_][A-Za-z_0-9]*", p.canon()))


def same_ingredients(got: Poly, want: Poly, extra=()) -> bool:
    """The value is built from the same named quantities and functions as the documented one (only combined differently): a
    disagreement of the normal forms is then a disagreement of the values, not an unrecognised way of writing the same thing."""
    return ingredient_tokens(got) <= (ingredient_tokens(want) | set(extra))


def split_conditional_assignments(fn: ast.FunctionDef) -> ast.FunctionDef:
    """Copy of a function in which `x = a if c else b` (and `return a if c else b`) are written as if / else statements, so that
    path analyses see the two cases as paths.  The original tree is not touched."""
    from .expand import clone
    new = clone(fn)

    def block(stmts):
        out = []
        for st in stmts:
            for f in ("body", "orelse", "finalbody"):
                v = getattr(st, f, None)
                if isinstance(v, list) and v and isinstance(v[0], ast.stmt) and not isinstance(st, (ast.FunctionDef, ast.ClassDef)):
                    setattr(st, f, block(v))
            for h in getattr(st, "handlers", []) or []:
                h.body = block(h.body)
            if isinstance(st, (ast.Assign, ast.Return)) and isinstance(st.value, ast.IfExp):
                ie = st.value

                def mk(val):
                    s2 = clone(st)
                    s2.value = val
                    return s2
                out += block([ast.copy_location(ast.If(test=ie.test, body=[mk(ie.body)], orelse=[mk(ie.orelse)]), st)])
            else:
                out.append(st)
        return out
    new.body = block(new.body)
    ast.fix_missing_locations(new)
    for parent in ast.walk(new):
        for child in ast.iter_child_nodes(parent):
            child._parent = parent
    if hasattr(fn, "_module"):
        new._module = fn._module
    return new


def closure_env(nf: NF, fn: ast.FunctionDef, inner: ast.FunctionDef, mi, outer_env: dict, qual: str = "closure") -> dict:
    """Values of the free variables of a nested function that the enclosing function binds exactly once at its top level (and the
    nested function never rebinds): `decay = gamma * lmbda` used inside a scan body is read as gamma*lmbda there."""
    ocfg = nf.cfg_of(fn)
    osc = Scope(ocfg, mi, dict(outer_env), qual)
    local_stores = {x.id for x in ast.walk(inner) if isinstance(x, ast.Name) and isinstance(x.ctx, ast.Store)} | {a.arg for a in inner.args.posonlyargs + inner.args.args + inner.args.kwonlyargs}
    out = {}
    for top in fn.body:
        if isinstance(top, ast.Assign) and len(top.targets) == 1 and isinstance(top.targets[0], ast.Name) and top.targets[0].id not in local_stores:
            nm = top.targets[0].id
            if sum(1 for x in ast.walk(fn) if isinstance(x, ast.Name) and x.id == nm and isinstance(x.ctx, ast.Store)) == 1:
                try:
                    out[nm] = nf.poly(top.value, osc, ocfg.stmt_node[id(top)])
                except Exception:
                    continue
    return out


def with_callees_inlined(repo, fn: ast.FunctionDef, qual: str, cls_qual=None):
    """Copy of ``fn`` in which the calls to repository functions it makes directly are expanded in place even when the callee belongs
    to the frozen surface (a wrapper that forwards to a sibling is then read like the sibling's body with the wrapper's arguments).
    Returns None when nothing could be expanded.  The original tree is not touched."""
    from .expand import Expander, clone, load_known
    mi = fn._module
    callees = set()
    for n in ast.walk(fn):
        if isinstance(n, ast.Call) and isinstance(n.func, (ast.Name, ast.Attribute)):
            try:
                r = repo.resolve_expr(mi, n.func)
            except Exception:
                r = None
            if r and r.startswith(repo.PKG + ".") and repo.has(r):
                callees.add(r)
    if not callees:
        return None
    new = clone(fn)
    new._module = mi
    new._parent = getattr(fn, "_parent", None)
    ex = Expander(repo, load_known() - callees, max_depth=1)
    try:
        changed = ex.expand_function(new, mi, cls_qual, qual)
    except Exception:
        return None
    if not changed:
        return None
    for parent in ast.walk(new):
        for child in ast.iter_child_nodes(parent):
            child._parent = parent
    return new


def field_gathers(fn: ast.FunctionDef, storage: str = "self.buffer"):
    """Per-field reads `storage[k][I]` made inside an iteration over all fields of the storage dict (comprehension or for loop over
    the dict, its keys(), items() or values()).  One record per read:
    {"sub": Subscript, "index": expr, "owner": loop / comprehension node, "pairing": "name" | "position" | None, "vars": {loop names}}.
    pairing says how the gathered value meets its field in the result: stored under the field's key, or by position in the dict order."""
    from .loops import dotted

    def over(it):
        if dotted(it) == storage:
            return "keys"
        if isinstance(it, ast.Call) and isinstance(it.func, ast.Attribute) and it.func.attr in ("keys", "items", "values") and dotted(it.func.value) == storage and not it.args:
            return it.func.attr
        if isinstance(it, ast.Call) and isinstance(it.func, ast.Name) and it.func.id in ("list", "tuple") and len(it.args) == 1:
            return over(it.args[0])
        return None
    out = []
    for n in ast.walk(fn):
        if isinstance(n, (ast.DictComp, ast.ListComp, ast.GeneratorExp)):
            if len(n.generators) != 1:
                continue
            tgt, it = n.generators[0].target, n.generators[0].iter
            body = [n.key, n.value] if isinstance(n, ast.DictComp) else [n.elt]
        elif isinstance(n, ast.For):
            tgt, it, body = n.target, n.iter, n.body
        else:
            continue
        kind = over(it)
        if kind is None:
            continue
        keyvar = valvar = None
        if kind == "keys" and isinstance(tgt, ast.Name):
            keyvar = tgt.id
        elif kind == "items" and isinstance(tgt, (ast.Tuple, ast.List)) and len(tgt.elts) == 2 and all(isinstance(e, ast.Name) for e in tgt.elts):
            keyvar, valvar = tgt.elts[0].id, tgt.elts[1].id
        elif kind == "values" and isinstance(tgt, ast.Name):
            valvar = tgt.id
        else:
            continue
        reads = []
        for b in body:
            for x in ast.walk(b):
                if not (isinstance(x, ast.Subscript) and isinstance(getattr(x, "ctx", None), ast.Load)):
                    continue
                if isinstance(x.value, ast.Subscript) and dotted(x.value.value) == storage and isinstance(x.value.slice, ast.Name) and x.value.slice.id == keyvar:
                    reads.append(x)
                elif isinstance(x.value, ast.Name) and valvar is not None and x.value.id == valvar:
                    reads.append(x)
        if not reads:
            continue
        pairing = None
        if isinstance(n, ast.DictComp):
            pairing = "name" if isinstance(n.key, ast.Name) and n.key.id == keyvar else None
        elif isinstance(n, (ast.ListComp, ast.GeneratorExp)):
            pairing = "position"
        else:
            for st in ast.walk(n):
                if isinstance(st, ast.Assign) and len(st.targets) == 1 and isinstance(st.targets[0], ast.Subscript) and isinstance(st.targets[0].slice, ast.Name) and st.targets[0].slice.id == keyvar \
                        and any(r is y for r in reads for y in ast.walk(st.value)):
                    pairing = "name"
                elif isinstance(st, ast.Call) and isinstance(st.func, ast.Attribute) and st.func.attr == "append" and st.args and any(r is y for r in reads for y in ast.walk(st.args[0])):
                    pairing = pairing or "position"
        for r in reads:
            out.append({"sub": r, "index": r.slice, "owner": n, "pairing": pairing, "vars": {v for v in (keyvar, valvar) if v}, "kind": kind})
    return out


def storage_rebindings(repo, cls_qual: str, attr: str = "buffer", skip=("__init__", "__setstate__")):
    """Assignments `self.<attr> = ...` in methods of the class (and its bases) other than the constructors: [(method qual, stmt)]."""
    out = []
    for c in repo.mro(cls_qual):
        try:
            cn = repo.cls(c)
        except Exception:
            continue
        for m in cn.body:
            if isinstance(m, ast.FunctionDef) and m.name not in skip:
                for st in ast.walk(m):
                    if isinstance(st, (ast.Assign, ast.AnnAssign, ast.AugAssign)):
                        tgs = st.targets if isinstance(st, ast.Assign) else [st.target]
                        for t in tgs:
                            for tt in (t.elts if isinstance(t, (ast.Tuple, ast.List)) else [t]):
                                if isinstance(tt, ast.Attribute) and tt.attr == attr and isinstance(tt.value, ast.Name) and tt.value.id == "self":
                                    out.append((f"{c}.{m.name}", st))
    return out
