"""E0 front end: parse the working tree, module table, import and name resolution."""
from __future__ import annotations

import ast
import hashlib
import os
from dataclasses import dataclass, field


class AnalysisError(Exception):
    """The analysis cannot decide this tree (anchor vanished, idiom unknown)."""


class AnchorMissing(AnalysisError):
    pass


@dataclass
class ModuleInfo:
    name: str
    path: str
    relpath: str
    src: str
    tree: ast.Module
    imports: dict = field(default_factory=dict)  # local name -> dotted target
    defs: dict = field(default_factory=dict)  # top-level name -> ast node


def _set_parents(tree):
    for parent in ast.walk(tree):
        for child in ast.iter_child_nodes(parent):
            child._parent = parent  # type: ignore[attr-defined]


class Repo:
    """Parsed view of ``<root>/rl_blox`` (plus ``examples`` on request)."""

    PKG = "rl_blox"

    def __init__(self, root: str = "/repo", overlay: dict | None = None, expand: bool = True):
        """``overlay`` maps a path relative to root to replacement source text (used by the self-test: mutants
        are analysed in memory, nothing is written to disk and nothing is executed)."""
        self.root = os.path.abspath(root)
        self.overlay = dict(overlay or {})
        self.modules: dict[str, ModuleInfo] = {}
        self._digest = hashlib.sha256()
        pkg_dir = os.path.join(self.root, self.PKG)
        if not os.path.isdir(pkg_dir):
            raise AnchorMissing(f"package directory {pkg_dir} not found")
        for dirpath, dirnames, filenames in sorted(os.walk(pkg_dir)):
            dirnames[:] = sorted(d for d in dirnames if d != "__pycache__")
            for fn in sorted(filenames):
                if not fn.endswith(".py"):
                    continue
                path = os.path.join(dirpath, fn)
                rel = os.path.relpath(path, self.root)
                mod = rel[:-3].replace(os.sep, ".")
                if mod.endswith(".__init__"):
                    mod = mod[: -len(".__init__")]
                if rel in self.overlay:
                    src = self.overlay[rel]
                else:
                    with open(path, encoding="utf-8") as fh:
                        src = fh.read()
                self._digest.update(rel.encode())
                self._digest.update(src.encode())
                try:
                    tree = ast.parse(src, filename=path)
                except SyntaxError as e:  # the build would fail as well
                    raise AnalysisError(f"syntax error in {rel}: {e}") from e
                _set_parents(tree)
                mi = ModuleInfo(mod, path, rel, src, tree)
                self._index(mi)
                self.modules[mod] = mi
        self.inlined = []
        self.expand_failed = []
        self._canon = self._moved_definitions()
        self.specialised = []
        if expand:
            from .specialise import specialise_repo
            self.specialised = specialise_repo(self)
        if expand:
            from .expand import expand_repo
            self.inlined = expand_repo(self)

    def transparent_helpers(self) -> set:
        """Unknown (post-freeze) helper functions every call of which was expanded into its caller: their own bodies carry no
        additional behaviour and are skipped by rules that scan all functions."""
        ok = {c for _, c, _ in getattr(self, "inlined", [])}
        bad = {c for _, c in getattr(self, "expand_failed", [])}
        return ok - bad

    # ------------------------------------------------------------------
    def digest(self) -> str:
        return self._digest.hexdigest()[:16]

    def _index(self, mi: ModuleInfo):
        is_pkg = mi.path.endswith("__init__.py")
        for node in mi.tree.body:
            if isinstance(node, (ast.FunctionDef, ast.AsyncFunctionDef, ast.ClassDef)):
                mi.defs[node.name] = node
            elif isinstance(node, ast.Assign):
                for t in node.targets:
                    if isinstance(t, ast.Name):
                        mi.defs[t.id] = node
            elif isinstance(node, ast.AnnAssign) and isinstance(node.target, ast.Name):
                mi.defs[node.target.id] = node
        for node in ast.walk(mi.tree):
            if isinstance(node, ast.Import):
                for a in node.names:
                    local = a.asname or a.name.split(".")[0]
                    target = a.name if a.asname else a.name.split(".")[0]
                    mi.imports.setdefault(local, target)
            elif isinstance(node, ast.ImportFrom):
                base = node.module or ""
                if node.level:
                    parts = mi.name.split(".")
                    if not is_pkg:
                        parts = parts[:-1]
                    up = node.level - 1
                    if up:
                        parts = parts[:-up]
                    base = ".".join(parts + ([node.module] if node.module else []))
                for a in node.names:
                    local = a.asname or a.name
                    mi.imports.setdefault(local, f"{base}.{a.name}")

    # ------------------------------------------------------------------
    def _moved_definitions(self) -> dict:
        """id(def node) -> the qualified name it had when the checker's frozen surface was recorded, for functions / classes that were
        moved to another module and are re-exported from the old place: the old name stays the canonical one, so that rules, tables and
        the helper expander keep recognising the definition."""
        out = {}
        try:
            from .expand import load_known
            known = load_known()
        except Exception:
            return out
        tops = set()
        for k in known:
            parts = k.split(".")
            for i in range(len(parts) - 1, 0, -1):
                if ".".join(parts[:i]) in self.modules:
                    if len(parts) > i:
                        tops.add(".".join(parts[: i + 1]))
                    break
        for k in sorted(tops):
            mod, name = k.rsplit(".", 1)
            mi = self.modules.get(mod)
            if mi is None or name in mi.defs:
                continue
            tgt = mi.imports.get(name)
            if not tgt or not tgt.startswith(self.PKG + "."):
                continue
            try:
                m2, node = self.lookup(tgt)
            except AnchorMissing:
                continue
            if isinstance(node, (ast.FunctionDef, ast.AsyncFunctionDef, ast.ClassDef)) and node.name == name:
                out.setdefault(id(node), k)
        return out

    def module_members(self, modname: str):
        """(name, node, defining ModuleInfo) of the functions / classes that belong to a module: its own definitions and those that were
        moved elsewhere and are re-exported from it under the recorded name."""
        mi = self.module(modname)
        out = []
        for name, node in mi.defs.items():
            if isinstance(node, (ast.FunctionDef, ast.AsyncFunctionDef, ast.ClassDef)):
                out.append((name, node, mi))
        for name, tgt in mi.imports.items():
            if name in mi.defs or not tgt.startswith(self.PKG + "."):
                continue
            try:
                m2, node = self.lookup(tgt)
            except AnchorMissing:
                continue
            if isinstance(node, (ast.FunctionDef, ast.AsyncFunctionDef, ast.ClassDef)) and self._canon.get(id(node)) == f"{modname}.{name}":
                out.append((name, node, m2))
        return out

    def canonical(self, qual: str, node) -> str:
        return self._canon.get(id(node), qual) if getattr(self, "_canon", None) else qual

    def module(self, name: str) -> ModuleInfo:
        if name not in self.modules:
            raise AnchorMissing(f"module {name} not found")
        return self.modules[name]

    def has(self, qual: str) -> bool:
        try:
            self.lookup(qual)
            return True
        except AnchorMissing:
            return False

    def lookup(self, qual: str):
        """Return (ModuleInfo, ast node) for ``pkg.mod.func`` or ``pkg.mod.Class.method``."""
        parts = qual.split(".")
        for i in range(len(parts), 0, -1):
            mod = ".".join(parts[:i])
            if mod in self.modules:
                mi = self.modules[mod]
                rest = parts[i:]
                if not rest:
                    return mi, mi.tree
                node = mi.defs.get(rest[0])
                if node is None:
                    # re-exported name?
                    tgt = mi.imports.get(rest[0])
                    if tgt and tgt.startswith(self.PKG):
                        return self.lookup(".".join([tgt] + rest[1:]))
                    raise AnchorMissing(f"{qual}: no top-level {rest[0]} in {mod}")
                for nm in rest[1:]:
                    found = None
                    for ch in getattr(node, "body", []):
                        if isinstance(ch, (ast.FunctionDef, ast.AsyncFunctionDef, ast.ClassDef)) and ch.name == nm:
                            found = ch
                    if found is None:
                        raise AnchorMissing(f"{qual}: no member {nm}")
                    node = found
                return mi, node
        raise AnchorMissing(f"{qual}: module not found")

    def func(self, qual: str) -> ast.FunctionDef:
        mi, node = self.lookup(qual)
        if not isinstance(node, (ast.FunctionDef, ast.AsyncFunctionDef)):
            raise AnchorMissing(f"{qual} is not a function")
        node._module = mi  # type: ignore[attr-defined]
        node._qual = qual  # type: ignore[attr-defined]
        return node

    def cls(self, qual: str) -> ast.ClassDef:
        mi, node = self.lookup(qual)
        if not isinstance(node, ast.ClassDef):
            raise AnchorMissing(f"{qual} is not a class")
        node._module = mi  # type: ignore[attr-defined]
        node._qual = qual  # type: ignore[attr-defined]
        return node

    def method(self, cls_qual: str, name: str, inherited: bool = True):
        """Resolve a method through the (repo-internal) MRO. Returns (owner_qual, FunctionDef) or None."""
        for cq in self.mro(cls_qual) if inherited else [cls_qual]:
            c = self.cls(cq)
            for ch in c.body:
                if isinstance(ch, ast.FunctionDef) and ch.name == name:
                    ch._module = c._module  # type: ignore[attr-defined]
                    ch._qual = f"{cq}.{name}"  # type: ignore[attr-defined]
                    return cq, ch
                # `meth = OtherClass.meth` in the class body: the method is shared
                if isinstance(ch, ast.Assign) and len(ch.targets) == 1 and isinstance(ch.targets[0], ast.Name) and ch.targets[0].id == name and isinstance(ch.value, ast.Attribute):
                    owner = self.resolve_expr(c._module, ch.value.value)  # type: ignore[attr-defined]
                    if owner and owner != cq and self.has(owner):
                        try:
                            self.cls(owner)
                        except AnchorMissing:
                            continue
                        r = self.method(owner, ch.value.attr)
                        if r is not None:
                            return r
        return None

    def mro(self, cls_qual: str) -> list[str]:
        out = []
        todo = [cls_qual]
        while todo:
            cq = todo.pop(0)
            if cq in out:
                continue
            out.append(cq)
            c = self.cls(cq)
            mi = c._module  # type: ignore[attr-defined]
            for b in c.bases:
                r = self.resolve_expr(mi, b)
                if r and r.startswith(self.PKG) and self.has(r):
                    try:
                        self.cls(r)
                        todo.append(r)
                    except AnchorMissing:
                        pass
        return out

    def subclasses(self, cls_qual: str) -> list[str]:
        out = []
        for mi in self.modules.values():
            for name, node in mi.defs.items():
                if isinstance(node, ast.ClassDef):
                    q = self.canonical(f"{mi.name}.{name}", node)
                    if q != cls_qual and cls_qual in self.mro(q):
                        out.append(q)
        return sorted(out)

    # ------------------------------------------------------------------
    def resolve_name(self, mi: ModuleInfo, name: str) -> str | None:
        """Dotted target of a module-level name (follows imports; repo names are followed through re-exports)."""
        if name in mi.defs and not isinstance(mi.defs[name], (ast.Assign, ast.AnnAssign)):
            return self.canonical(f"{mi.name}.{name}", mi.defs[name])
        if name in mi.imports:
            tgt = mi.imports[name]
            if tgt.startswith(self.PKG + "."):
                try:
                    m2, node = self.lookup(tgt)
                    if isinstance(node, ast.Module):
                        return m2.name
                    return self.canonical(f"{m2.name}.{node.name}", node) if hasattr(node, "name") else tgt
                except AnchorMissing:
                    return tgt
            return tgt
        if name in mi.defs:
            return f"{mi.name}.{name}"
        return None

    def resolve_expr(self, mi: ModuleInfo, e: ast.AST) -> str | None:
        """Dotted name of ``a.b.c`` expressions resolved through the module's imports."""
        parts = []
        while isinstance(e, ast.Attribute):
            parts.append(e.attr)
            e = e.value
        if not isinstance(e, ast.Name):
            return None
        base = self.resolve_name(mi, e.id)
        if base is None:
            return None
        return ".".join([base] + parts[::-1])

    def all_functions(self):
        """Yield (qual, FunctionDef, ModuleInfo) for every function and method (nested ones included)."""
        for mi in self.modules.values():
            yield from self._walk_funcs(mi, mi.tree, mi.name)

    def _walk_funcs(self, mi, node, prefix):
        for ch in getattr(node, "body", []):
            if isinstance(ch, (ast.FunctionDef, ast.AsyncFunctionDef)):
                q = self.canonical(f"{prefix}.{ch.name}", ch)
                ch._module = mi
                ch._qual = q
                yield q, ch, mi
                yield from self._walk_nested(mi, ch, q)
            elif isinstance(ch, ast.ClassDef):
                yield from self._walk_funcs(mi, ch, self.canonical(f"{prefix}.{ch.name}", ch))

    def _walk_nested(self, mi, fn, prefix):
        for n in ast.walk(fn):
            if n is fn:
                continue
            if isinstance(n, (ast.FunctionDef, ast.AsyncFunctionDef)):
                # only direct nesting levels once
                p = getattr(n, "_parent", None)
                while p is not None and not isinstance(p, (ast.FunctionDef, ast.AsyncFunctionDef)):
                    p = getattr(p, "_parent", None)
                if p is fn:
                    q = f"{prefix}.<locals>.{n.name}"
                    n._module = mi
                    n._qual = q
                    yield q, n, mi
                    yield from self._walk_nested(mi, n, q)


def loc(mi: ModuleInfo | None, node: ast.AST | None) -> str:
    if mi is None:
        return "?"
    if node is None or not hasattr(node, "lineno"):
        return mi.relpath
    return f"{mi.relpath}:{node.lineno}"


def src_of(node: ast.AST) -> str:
    try:
        return ast.unparse(node)
    except Exception:  # pragma: no cover
        return "<?>"


def short(node: ast.AST, n: int = 110) -> str:
    s = " ".join(src_of(node).split())
    return s if len(s) <= n else s[: n - 3] + "..."


def param_names(fn: ast.FunctionDef) -> list[str]:
    a = fn.args
    return [x.arg for x in a.posonlyargs + a.args] + ([a.vararg.arg] if a.vararg else []) + [x.arg for x in a.kwonlyargs] + ([a.kwarg.arg] if a.kwarg else [])


def positional_params(fn: ast.FunctionDef) -> list[str]:
    a = fn.args
    return [x.arg for x in a.posonlyargs + a.args]


def bind_call(fn: ast.FunctionDef, call: ast.Call, prefix: list | None = None, skip_self: bool = False) -> dict:
    """Map parameter name -> argument expression for a call of ``fn`` (prefix = partial-bound leading args)."""
    params = positional_params(fn)
    if skip_self and params and params[0] in ("self", "cls"):
        params = params[1:]
    args = list(prefix or []) + list(call.args)
    out = {}
    i = 0
    for a in args:
        if isinstance(a, ast.Starred):
            break
        if i < len(params):
            out[params[i]] = a
        elif fn.args.vararg:
            out.setdefault("*" + fn.args.vararg.arg, []).append(a)
        i += 1
    for kw in call.keywords:
        if kw.arg is not None:
            out[kw.arg] = kw.value
    return out
