"""Discovery of environment-interaction loops (shared by C01, C10, C11, C13).

An *env loop* is a function containing ``<env>.step(<action>)`` where ``<env>`` is a parameter of the function,
the statement sits inside a ``while``/``for`` loop and its result is unpacked into the five protocol positions
(next_obs, reward, terminated, truncated, info).  Names are not trusted: roles are the tuple positions.
"""
from __future__ import annotations

import ast
from dataclasses import dataclass, field

from .cfg import CFG, Def
from .repo import Repo, AnalysisError, param_names

# Frozen registry (DESIGN section 4): confirmed by reading every loop.  A missing entry is exit 2.
ENV_LOOPS = [
    "rl_blox.algorithm.dqn.train_dqn",
    "rl_blox.algorithm.nature_dqn.train_nature_dqn",
    "rl_blox.algorithm.ddqn.train_ddqn",
    "rl_blox.algorithm.per.train_ddqn_per",
    "rl_blox.algorithm.ddpg.train_ddpg",
    "rl_blox.algorithm.td3.train_td3",
    "rl_blox.algorithm.td3_lap.train_td3_lap",
    "rl_blox.algorithm.sac.train_sac",
    "rl_blox.algorithm.td7.train_td7",
    "rl_blox.algorithm.mrq.train_mrq",
    "rl_blox.algorithm.pets.train_pets",
    "rl_blox.algorithm.reinforce.sample_trajectories",
    "rl_blox.algorithm.a2c.collect_trajectories",
    "rl_blox.algorithm.ppo.collect_trajectories",
    "rl_blox.algorithm.q_learning.train_q_learning",
    "rl_blox.algorithm.sarsa.train_sarsa",
    "rl_blox.algorithm.double_q_learning.train_double_q_learning",
    "rl_blox.algorithm.monte_carlo.train_monte_carlo",
    "rl_blox.algorithm.dynaq.train_dynaq",
    "rl_blox.algorithm.cmaes.train_cmaes",
    "rl_blox.util.experiment_helper.generate_rollout",
]

VECTOR_LOOPS = {"rl_blox.algorithm.a2c.collect_trajectories", "rl_blox.algorithm.ppo.collect_trajectories"}

WRAPPERS = {"int", "float", "np.asarray", "np.array", "jnp.asarray", "jnp.array", "jnp.copy", "numpy.asarray", "numpy.array",
            "jax.numpy.asarray", "jax.numpy.array", "jax.numpy.copy", "np.copy", "bool"}


def dotted(e) -> str:
    parts = []
    while isinstance(e, ast.Attribute):
        parts.append(e.attr)
        e = e.value
    if isinstance(e, ast.Name):
        parts.append(e.id)
        return ".".join(parts[::-1])
    return ""


def strip_wrappers(e: ast.AST) -> ast.AST:
    """Remove value-transparent wrappers: int(x), float(x), np.asarray(x), jnp.array(x), x[jnp.newaxis], x[None]."""
    while True:
        if isinstance(e, ast.Call) and dotted(e.func) in WRAPPERS and len(e.args) == 1 and not isinstance(e.args[0], ast.Starred):
            e = e.args[0]
            continue
        if isinstance(e, ast.Subscript):
            s = e.slice
            if (isinstance(s, ast.Constant) and s.value is None) or dotted(s) in ("jnp.newaxis", "np.newaxis", "jax.numpy.newaxis", "numpy.newaxis"):
                e = e.value
                continue
        return e


@dataclass
class EnvLoop:
    qual: str
    fn: ast.FunctionDef
    cfg: CFG
    mi: object
    env: str  # name of the environment parameter
    step_stmt: ast.AST = None
    step_node: int = -1
    step_call: ast.Call = None
    pos: dict = field(default_factory=dict)  # protocol position -> variable name (None if '_')
    loop_header: int = -1  # innermost loop containing S
    outer_header: int = -1  # outermost loop containing S
    resets_in: list = field(default_factory=list)  # CFG node ids of reset statements inside the outermost loop
    resets_pre: list = field(default_factory=list)  # before the loop
    vector: bool = False

    def is_reset_call(self, e) -> bool:
        return isinstance(e, ast.Call) and isinstance(e.func, ast.Attribute) and e.func.attr == "reset" and dotted(e.func.value) == self.env


def find_env_loop(repo: Repo, qual: str, cfgs: dict | None = None) -> EnvLoop:
    fn = repo.func(qual)
    mi = fn._module
    cfg = (cfgs or {}).get(qual) or CFG(fn)
    if cfgs is not None:
        cfgs[qual] = cfg
    params = set(param_names(fn))
    cands = []
    for n in cfg.nodes:
        s = n.ast
        if n.kind != "stmt" or not isinstance(s, ast.Assign):
            continue
        v = s.value
        if isinstance(v, ast.Call) and isinstance(v.func, ast.Attribute) and v.func.attr == "step" and isinstance(v.func.value, ast.Name) and v.func.value.id in params:
            cands.append(n)
    if len(cands) != 1:
        raise AnalysisError(f"{qual}: expected exactly one `<env>.step(...)` assignment on a parameter, found {len(cands)}")
    n = cands[0]
    s = n.ast
    tgt = s.targets[0]
    if not (len(s.targets) == 1 and isinstance(tgt, ast.Tuple) and len(tgt.elts) == 5):
        raise AnalysisError(f"{qual}: step result is not unpacked into five positions (unrecognised idiom)")
    L = EnvLoop(qual, fn, cfg, mi, s.value.func.value.id)
    L.step_stmt, L.step_node, L.step_call = s, n.id, s.value
    for i, el in enumerate(tgt.elts):
        L.pos[i] = el.id if isinstance(el, ast.Name) and el.id != "_" else None
    loops = cfg.enclosing_loops(n.id)
    if not loops:
        raise AnalysisError(f"{qual}: env.step is not inside a loop")
    L.loop_header, L.outer_header = loops[0], loops[-1]
    body = cfg.loop_body_nodes(L.outer_header)
    for m in cfg.nodes:
        if m.kind not in ("stmt",) or m.ast is None:
            continue
        has = any(L.is_reset_call(c) for c in ast.walk(m.ast) if isinstance(c, ast.Call))
        if has:
            (L.resets_in if m.id in body else L.resets_pre).append(m.id)
    L.vector = qual in VECTOR_LOOPS
    return L


def all_env_loops(repo: Repo, cfgs: dict | None = None) -> list[EnvLoop]:
    return [find_env_loop(repo, q, cfgs) for q in ENV_LOOPS]


# -- origin tracing ---------------------------------------------------------------------------------

class Origins:
    """Follow copy chains of a variable back to protocol positions (step/reset results), parameters or unknowns."""

    def __init__(self, L: EnvLoop):
        self.L = L
        self.cfg = L.cfg

    def of_expr(self, e: ast.AST, at: int, seen=None) -> set:
        e = strip_wrappers(e)
        if isinstance(e, ast.IfExp):
            return self.of_expr(e.body, at, seen) | self.of_expr(e.orelse, at, seen)
        if isinstance(e, ast.Name):
            return self.of_name(e.id, at, seen)
        if isinstance(e, ast.Subscript) and self.L.is_reset_call(e.value) and isinstance(e.slice, ast.Constant):
            return {("reset", e.slice.value, at)}
        if isinstance(e, ast.Constant):
            return {("const", repr(e.value))}
        return {("expr", ast.unparse(e)[:60], at)}

    def of_name(self, name: str, at: int, seen=None) -> set:
        seen = set() if seen is None else seen
        out = set()
        for d in self.cfg.defs_of(at, name):
            out |= self.of_def(d, seen)
        if not self.cfg.defs_of(at, name):
            out.add(("global", name))
        return out

    def of_def(self, d: Def, seen) -> set:
        k = (d.node, d.name)
        if k in seen:
            return set()
        seen = seen | {k}
        L = self.L
        if d.kind == "param":
            return {("param", d.name)}
        if d.kind == "unpack":
            if d.node == L.step_node and len(d.path) == 1:
                return {("step", d.path[0])}
            if L.is_reset_call(d.value) and len(d.path) == 1:
                return {("reset", d.path[0], d.node)}
            if isinstance(d.value, ast.Tuple) and len(d.path) == 1 and isinstance(d.path[0], int) and d.path[0] < len(d.value.elts):
                return self.of_expr(d.value.elts[d.path[0]], d.node, seen)
            return {("unpack", ast.unparse(d.value)[:50], d.path, d.node)}
        if d.kind in ("assign", "walrus"):
            return self.of_expr(d.value, d.node, seen)
        if d.kind == "aug":
            return {("aug", d.name, d.node)}
        if d.kind == "for":
            return {("for", d.name, d.node)}
        return {(d.kind, d.name, d.node)}
