"""Discovery of environment-interaction loops (shared by C01, C10, C11, C13).

An *env loop* is a function containing ``<env>.step(<action>)`` where ``<env>`` is a parameter of the function,
the statement sits inside a ``while``/``for`` loop and its result is unpacked into the five protocol positions
(next_obs, reward, terminated, truncated, info).  Names are not trusted: roles are the tuple positions.
"""
from __future__ import annotations

import ast
from dataclasses import dataclass, field

from .cfg import CFG, Def
from .repo import Repo, AnalysisError, param_names

# Frozen registry (DESIGN section 4): confirmed by reading every loop.  A missing entry is exit 2.
ENV_LOOPS = [
    "rl_blox.algorithm.dqn.train_dqn",
    "rl_blox.algorithm.nature_dqn.train_nature_dqn",
    "rl_blox.algorithm.ddqn.train_ddqn",
    "rl_blox.algorithm.per.train_ddqn_per",
    "rl_blox.algorithm.ddpg.train_ddpg",
    "rl_blox.algorithm.td3.train_td3",
    "rl_blox.algorithm.td3_lap.train_td3_lap",
    "rl_blox.algorithm.sac.train_sac",
    "rl_blox.algorithm.td7.train_td7",
    "rl_blox.algorithm.mrq.train_mrq",
    "rl_blox.algorithm.pets.train_pets",
    "rl_blox.algorithm.reinforce.sample_trajectories",
    "rl_blox.algorithm.a2c.collect_trajectories",
    "rl_blox.algorithm.ppo.collect_trajectories",
    "rl_blox.algorithm.q_learning.train_q_learning",
    "rl_blox.algorithm.sarsa.train_sarsa",
    "rl_blox.algorithm.double_q_learning.train_double_q_learning",
    "rl_blox.algorithm.monte_carlo.train_monte_carlo",
    "rl_blox.algorithm.dynaq.train_dynaq",
    "rl_blox.algorithm.cmaes.train_cmaes",
    "rl_blox.util.experiment_helper.generate_rollout",
]

VECTOR_LOOPS = {"rl_blox.algorithm.a2c.collect_trajectories", "rl_blox.algorithm.ppo.collect_trajectories"}

WRAPPERS = {"int", "float", "np.asarray", "np.array", "jnp.asarray", "jnp.array", "jnp.copy", "numpy.asarray", "numpy.array",
            "jax.numpy.asarray", "jax.numpy.array", "jax.numpy.copy", "np.copy", "bool"}


def dotted(e) -> str:
    parts = []
    while isinstance(e, ast.Attribute):
        parts.append(e.attr)
        e = e.value
    if isinstance(e, ast.Name):
        parts.append(e.id)
        return ".".join(parts[::-1])
    return ""


def strip_wrappers(e: ast.AST) -> ast.AST:
    """Remove value-transparent wrappers: int(x), float(x), np.asarray(x), jnp.array(x), x[jnp.newaxis], x[None]."""
    while True:
        if isinstance(e, ast.Call) and dotted(e.func) in WRAPPERS and len(e.args) == 1 and not isinstance(e.args[0], ast.Starred):
            e = e.args[0]
            continue
        if isinstance(e, ast.Subscript):
            s = e.slice
            if (isinstance(s, ast.Constant) and s.value is None) or dotted(s) in ("jnp.newaxis", "np.newaxis", "jax.numpy.newaxis", "numpy.newaxis"):
                e = e.value
                continue
        return e


@dataclass
class EnvLoop:
    qual: str
    fn: ast.FunctionDef
    cfg: CFG
    mi: object
    env: str  # name of the environment parameter
    step_stmt: ast.AST = None
    step_node: int = -1
    step_call: ast.Call = None
    pos: dict = field(default_factory=dict)  # protocol position -> variable name (None if '_')
    loop_header: int = -1  # innermost loop containing S
    outer_header: int = -1  # outermost loop containing S
    resets_in: list = field(default_factory=list)  # CFG node ids of reset statements inside the outermost loop
    resets_pre: list = field(default_factory=list)  # before the loop
    vector: bool = False

    def is_reset_call(self, e) -> bool:
        return isinstance(e, ast.Call) and isinstance(e.func, ast.Attribute) and e.func.attr == "reset" and dotted(e.func.value) == self.env


def find_env_loop(repo: Repo, qual: str, cfgs: dict | None = None) -> EnvLoop:
    fn = repo.func(qual)
    mi = fn._module
    cfg = (cfgs or {}).get(qual) or CFG(fn)
    if cfgs is not None:
        cfgs[qual] = cfg
    params = set(param_names(fn))
    cands = []
    for n in cfg.nodes:
        s = n.ast
        if n.kind != "stmt" or not isinstance(s, ast.Assign):
            continue
        v = s.value
        if isinstance(v, ast.Call) and isinstance(v.func, ast.Attribute) and v.func.attr == "step" and isinstance(v.func.value, ast.Name) and v.func.value.id in params:
            cands.append(n)
    if len(cands) != 1:
        raise AnalysisError(f"{qual}: expected exactly one `<env>.step(...)` assignment on a parameter, found {len(cands)}")
    n = cands[0]
    s = n.ast
    tgt = s.targets[0]
    if not (len(s.targets) == 1 and isinstance(tgt, ast.Tuple) and len(tgt.elts) == 5):
        raise AnalysisError(f"{qual}: step result is not unpacked into five positions (unrecognised idiom)")
    L = EnvLoop(qual, fn, cfg, mi, s.value.func.value.id)
    L.step_stmt, L.step_node, L.step_call = s, n.id, s.value
    for i, el in enumerate(tgt.elts):
        L.pos[i] = el.id if isinstance(el, ast.Name) and el.id != "_" else None
    loops = cfg.enclosing_loops(n.id)
    if not loops:
        raise AnalysisError(f"{qual}: env.step is not inside a loop")
    L.loop_header, L.outer_header = loops[0], loops[-1]
    body = cfg.loop_body_nodes(L.outer_header)
    for m in cfg.nodes:
        if m.kind not in ("stmt",) or m.ast is None:
            continue
        has = any(L.is_reset_call(c) for c in ast.walk(m.ast) if isinstance(c, ast.Call))
        if has:
            (L.resets_in if m.id in body else L.resets_pre).append(m.id)
    L.vector = qual in VECTOR_LOOPS
    return L


def all_env_loops(repo: Repo, cfgs: dict | None = None) -> list[EnvLoop]:
    return [find_env_loop(repo, q, cfgs) for q in ENV_LOOPS]


# -- origin tracing ---------------------------------------------------------------------------------

class Origins:
    """Follow copy chains of a variable back to protocol positions (step/reset results), parameters or unknowns."""

    def __init__(self, L: EnvLoop):
        self.L = L
        self.cfg = L.cfg

    KNOWN_KINDS = ("step", "reset", "param", "const")
    repo = None        # set by the caller to follow fields of record objects (NamedTuple / dataclass constructions)

    @classmethod
    def unknown(cls, origins) -> list:
        """Provenance atoms that are not protocol positions / parameters / constants (values this analysis cannot name)."""
        return [x for x in origins if x[0] not in cls.KNOWN_KINDS]

    def _record_field(self, e: ast.Attribute, at: int, seen):
        """Origins of `rec.field` when every definition of `rec` reaching here is a construction of a plain record class."""
        if self.repo is None or not isinstance(e.value, ast.Name):
            return None
        from .nf import NF
        out = set()
        defs = self.cfg.defs_of(at, e.value.id)
        if not defs:
            return None
        for d in defs:
            v, vat = None, d.node
            if d.kind in ("assign", "walrus"):
                v = d.value
            elif d.kind == "unpack" and isinstance(d.value, (ast.Tuple, ast.List)) and len(d.path) == 1 and isinstance(d.path[0], int) and d.path[0] < len(d.value.elts):
                v = d.value.elts[d.path[0]]
            hops = 0
            while isinstance(v, ast.Name) and hops < 6:
                # a copy of a record built elsewhere (result variable of an expanded helper, an alias): follow the single definition
                ds2 = self.cfg.defs_of(vat, v.id)
                if len(ds2) != 1:
                    return None
                d2 = ds2[0]
                if d2.kind in ("assign", "walrus"):
                    v, vat = d2.value, d2.node
                elif d2.kind == "unpack" and isinstance(d2.value, (ast.Tuple, ast.List)) and len(d2.path) == 1 and isinstance(d2.path[0], int) and d2.path[0] < len(d2.value.elts):
                    v, vat = d2.value.elts[d2.path[0]], d2.node
                else:
                    return None
                hops += 1
            if not (isinstance(v, ast.Call) and isinstance(v.func, (ast.Name, ast.Attribute))):
                return None
            q = self.repo.resolve_expr(self.L.mi, v.func)
            try:
                node = self.repo.lookup(q)[1] if q and self.repo.has(q) else None
            except Exception:
                node = None
            fields = NF._record_fields(node) if node is not None else None
            if fields and isinstance(node, ast.ClassDef) and not any((isinstance(b, ast.Name) and b.id == "NamedTuple") or (isinstance(b, ast.Attribute) and b.attr == "NamedTuple") for b in node.bases) \
                    and not any("frozen=True" in ast.unparse(dc) for dc in node.decorator_list):
                return None       # a mutable record may have been changed since its construction
            if not fields or e.attr not in fields or any(isinstance(a, ast.Starred) for a in v.args) or any(k.arg is None for k in v.keywords):
                return None
            bound = dict(zip(fields, v.args))
            bound.update({k.arg: k.value for k in v.keywords})
            if e.attr not in bound:
                return None
            out |= self.of_expr(bound[e.attr], vat, seen)
        return out

    def of_expr(self, e: ast.AST, at: int, seen=None) -> set:
        e = strip_wrappers(e)
        if isinstance(e, ast.IfExp):
            return self.of_expr(e.body, at, seen) | self.of_expr(e.orelse, at, seen)
        if isinstance(e, ast.Name):
            return self.of_name(e.id, at, seen)
        if isinstance(e, ast.Attribute):
            r = self._record_field(e, at, seen)
            if r is not None:
                return r
        if isinstance(e, ast.Subscript) and self.L.is_reset_call(e.value) and isinstance(e.slice, ast.Constant):
            return {("reset", e.slice.value, at)}
        if isinstance(e, ast.Constant):
            return {("const", repr(e.value))}
        return {("expr", ast.unparse(e)[:60], at)}

    def deps(self, e: ast.AST, at: int, seen=None, depth: int = 0) -> set:
        """Protocol values an expression depends on (coarse: every name read in it, through definitions, loop iterables and
        comprehensions).  Atoms: ("step", k), ("reset", k, node), ("param", name); ("unknown", name) when a name cannot be followed."""
        seen = set() if seen is None else seen
        out = set()
        if depth > 10:
            return {("unknown", "<deep>")}
        bound = {t.id for c in ast.walk(e) if isinstance(c, ast.comprehension) for t in ast.walk(c.target) if isinstance(t, ast.Name)}
        bound |= {a.arg for l in ast.walk(e) if isinstance(l, ast.Lambda) for a in l.args.args}
        for x in ast.walk(e):
            if not (isinstance(x, ast.Name) and isinstance(x.ctx, ast.Load)) or x.id in bound:
                continue
            ds = self.cfg.defs_of(at, x.id)
            if not ds:
                continue        # module-level name (function, constant)
            for d in ds:
                k = (d.node, d.name)
                if k in seen:
                    continue
                seen.add(k)
                if d.kind == "param":
                    out.add(("param", d.name))
                elif d.kind == "unpack" and d.node == self.L.step_node and len(d.path) == 1:
                    out.add(("step", d.path[0]))
                elif d.kind == "unpack" and self.L.is_reset_call(d.value) and len(d.path) == 1:
                    out.add(("reset", d.path[0], d.node))
                elif d.kind in ("funcdef", "classdef", "import"):
                    continue
                elif d.kind == "aug" and isinstance(d.value, ast.AugAssign):
                    out |= self.deps(d.value.value, d.node, seen, depth + 1)
                    out |= self.deps(ast.Name(id=d.name, ctx=ast.Load()), d.node, seen, depth + 1) if False else set()
                elif isinstance(d.value, ast.AST) and not isinstance(d.value, ast.stmt):
                    out |= self.deps(d.value, d.node, seen, depth + 1)
                else:
                    out.add(("unknown", d.name))
        return out

    def of_name(self, name: str, at: int, seen=None) -> set:
        seen = set() if seen is None else seen
        out = set()
        for d in self.cfg.defs_of(at, name):
            out |= self.of_def(d, seen)
        if not self.cfg.defs_of(at, name):
            out.add(("global", name))
        return out

    def of_def(self, d: Def, seen) -> set:
        k = (d.node, d.name)
        if k in seen:
            return set()
        seen = seen | {k}
        L = self.L
        if d.kind == "param":
            return {("param", d.name)}
        if d.kind == "unpack":
            if d.node == L.step_node and len(d.path) == 1:
                return {("step", d.path[0])}
            if L.is_reset_call(d.value) and len(d.path) == 1:
                return {("reset", d.path[0], d.node)}
            if isinstance(d.value, ast.Tuple) and len(d.path) == 1 and isinstance(d.path[0], int) and d.path[0] < len(d.value.elts):
                return self.of_expr(d.value.elts[d.path[0]], d.node, seen)
            return {("unpack", ast.unparse(d.value)[:50], d.path, d.node)}
        if d.kind in ("assign", "walrus"):
            return self.of_expr(d.value, d.node, seen)
        if d.kind == "aug":
            return {("aug", d.name, d.node)}
        if d.kind == "for":
            return {("for", d.name, d.node)}
        return {(d.kind, d.name, d.node)}
