"""Obligation bookkeeping, known-findings matching, evidence files, exit codes."""
from __future__ import annotations

import json
import os
import re
import time

from .repo import AnalysisError

HERE = os.path.dirname(os.path.abspath(__file__))
VERIF = os.path.dirname(HERE)
KNOWN = os.path.join(VERIF, "known_findings.txt")


def norm_key(s: str) -> str:
    return re.sub(r"\s+", " ", s.strip())


class Obligation:
    __slots__ = ("rule", "site", "key", "ok", "construct", "detail", "loc", "witness", "note")

    def __init__(self, rule, site, key, ok, construct="", detail="", loc="", witness=None, note=False):
        self.rule, self.site, self.key, self.ok = rule, site, norm_key(key), bool(ok)
        self.construct, self.detail, self.loc, self.witness, self.note = construct, detail, loc, witness, note

    def ident(self):
        return (self.rule, self.site, self.key)

    def as_dict(self):
        d = {"rule": self.rule, "site": self.site, "key": self.key, "verdict": "ok" if self.ok else "VIOLATED",
             "loc": self.loc, "construct": self.construct}
        if self.detail:
            d["detail"] = self.detail
        if self.witness:
            d["witness"] = self.witness
        return d


def load_known(path: str = KNOWN):
    """Return ({(property, rule, site, key): text}, [fixed lines])."""
    findings, fixed = {}, []
    if not os.path.exists(path):
        return findings, fixed
    with open(path, encoding="utf-8") as fh:
        for line in fh:
            line = line.rstrip("\n")
            if not line.strip() or line.lstrip().startswith("#"):
                continue
            if line.startswith("fixed:"):
                fixed.append(line)
                continue
            if line.startswith("finding:"):
                head, _, what = line[len("finding:"):].partition("::")
                m = re.match(r"\s*property=(\S+)\s+rule=(\S+)\s+site=(\S+)\s+key=(.*)$", head.strip())
                if not m:
                    raise AnalysisError(f"malformed known_findings line: {line!r}")
                findings[(m.group(1), m.group(2), m.group(3), norm_key(m.group(4)))] = what.strip()
    return findings, fixed


class Check:
    """Collects the obligations of one property run."""

    def __init__(self, pid: str, tier: str, repo, explanation: str = "", trusted=None, quiet: bool = False):
        self.pid, self.tier, self.repo = pid, tier, repo
        self.obs: list[Obligation] = []
        self.notes: list[str] = []
        self.counts: dict = {}
        self.floors: list = []
        self.explanation = explanation
        self.trusted = list(trusted or [])
        self.extra: dict = {}
        self.t0 = time.time()
        self.quiet = quiet
        self.rules_doc: dict = {}
        self.incomplete: list[str] = []   # AnalysisErrors of guarded rule groups (the rest of the run continues)

    # -- recording ---------------------------------------------------------------
    def rule(self, rid: str, text: str):
        self.rules_doc[rid] = text

    def ob(self, rule, site, key, ok, construct="", detail="", loc="", witness=None):
        if not ok and ("φ(" in str(construct) or (getattr(self, "opaque_is_unread", False) and "⟦" in str(construct))):
            # the value the rule looked at contains an unresolved merge of definitions (φ) (or, for properties that say so, an opaque
            # comprehension / lambda ⟦..⟧): the comparison was made on something the engine could not read - not evidence of a violation
            self.incomplete.append(f"{site}: {rule}/{key} compared an unread value `{str(construct)[:100]}` (unrecognised form)")
            return True
        o = Obligation(rule, site, key, ok, construct, detail, loc, witness)
        self.obs.append(o)
        return o.ok

    def note(self, text: str):
        self.notes.append(text)

    def count(self, name: str, n: int = 1):
        self.counts[name] = self.counts.get(name, 0) + n

    def floor(self, name: str, found: int, minimum: int):
        """Instance-count floor: fewer instances than confirmed by hand means the rule would pass vacuously."""
        self.floors.append((name, found, minimum))
        self.counts[name] = found
        if found < minimum:
            raise AnalysisError(f"instance floor missed: {name} found {found} < {minimum}")

    def need(self, cond, msg: str):
        if not cond:
            raise AnalysisError(msg)

    def guard(self, fn, *args, **kw):
        """Run one independent rule group.  An unrecognised idiom / vanished anchor inside it is recorded and the other
        groups still run: a definite violation found elsewhere is reported (exit 1); without one the run is undecided (exit 2)."""
        try:
            return fn(*args, **kw)
        except AnalysisError as e:
            self.incomplete.append(str(e))
            return None

    # -- results -----------------------------------------------------------------
    def violations(self):
        seen, out = set(), []
        for o in self.obs:
            if not o.ok and o.ident() not in seen:
                seen.add(o.ident())
                out.append(o)
        return out

    def unlisted_violations(self, known_path: str = KNOWN):
        known, _ = load_known(known_path)
        return [o for o in self.violations() if (self.pid, o.rule, o.site, o.key) not in known]

    def result_idents(self):
        return {o.ident() for o in self.obs if not o.ok}

    def finish(self, evidence_dir: str | None, known_path: str = KNOWN, selftest: dict | None = None) -> int:
        known, fixed = load_known(known_path)
        viol = self.violations()
        listed, unlisted = [], []
        for o in viol:
            k = (self.pid, o.rule, o.site, o.key)
            (listed if k in known else unlisted).append(o)
        lines = []
        for o in listed:
            lines.append(f"KNOWN-FINDING: property={self.pid} rule={o.rule} site={o.site} key={o.key} :: {known[(self.pid, o.rule, o.site, o.key)]}")
        stale = [k for k in known if k[0] == self.pid and k[1:] not in {o.ident() for o in viol}]
        replay_paths = []
        if unlisted and evidence_dir:
            rdir = os.path.join(evidence_dir, "replay")
            os.makedirs(rdir, exist_ok=True)
        for i, o in enumerate(unlisted):
            path = os.path.join(evidence_dir or ".", "replay", f"{self.pid}-{i}.json")
            if evidence_dir:
                with open(path, "w", encoding="utf-8") as fh:
                    json.dump({"property": self.pid, "repo_root": self.repo.root, "tier": self.tier, **o.as_dict(),
                               "rule_text": self.rules_doc.get(o.rule, "")}, fh, indent=1)
            replay_paths.append(path)
            lines.append(f"VIOLATION property={self.pid} replay={path}")
            lines.append(f"  {o.loc} rule={o.rule} site={o.site} key={o.key}")
            lines.append(f"    construct: {o.construct}")
            if o.detail:
                lines.append(f"    reason: {o.detail}")
            if o.witness:
                for w in (o.witness if isinstance(o.witness, list) else [o.witness]):
                    lines.append(f"      | {w}")
        n_ob = len(self.obs)
        n_ok = sum(1 for o in self.obs if o.ok)
        if not unlisted:
            lines.append(f"OK property={self.pid} tier={self.tier} obligations={n_ob} discharged={n_ok} known_findings={len(listed)}")
        for msg in self.incomplete:
            lines.append(f"note: analysis incomplete (rule group undecided): {msg}")
        for k in stale:
            lines.append(f"note: known_findings entry no longer reproduces (not an error): rule={k[1]} site={k[2]} key={k[3]}")
        if selftest:
            lines.append(f"selftest: mutants fired {selftest.get('fired')}/{selftest.get('mutants')}, benign silent {selftest.get('silent')}/{selftest.get('benign')}, skipped {selftest.get('skipped')}")
            for m in selftest.get("mismatches", []):
                lines.append(f"SELFTEST-MISMATCH {m}")
        if not self.quiet:
            print("\n".join(lines))
        if evidence_dir:
            self._write_evidence(evidence_dir, viol, listed, unlisted, selftest)
        return 1 if unlisted else 0

    def _write_evidence(self, evidence_dir, viol, listed, unlisted, selftest):
        os.makedirs(evidence_dir, exist_ok=True)
        distinct = {(o.rule, o.site, o.key) for o in self.obs if o.construct}
        samples = []
        seen_rules = set()
        for o in self.obs:  # one sample per rule first, then violations
            if o.rule not in seen_rules:
                seen_rules.add(o.rule)
                samples.append(o.as_dict())
        for o in viol:
            d = o.as_dict()
            if d not in samples:
                samples.append(d)
        per_rule = {}
        for o in self.obs:
            r = per_rule.setdefault(o.rule, {"obligations": 0, "discharged": 0})
            r["obligations"] += 1
            r["discharged"] += int(o.ok)
        cov = {
            "explanation": self.explanation,
            "obligations": len(self.obs),
            "discharged": sum(1 for o in self.obs if o.ok),
            "evaluations": len(self.obs),
            "distinct_nontrivial": len(distinct),
            "rule": "one obligation per (rule, site, construct) instance enumerated from the parsed tree; distinct = distinct "
                    "(rule, site, key) triples with a non-empty construct",
            "samples": samples[:60],
            "rules": self.rules_doc,
            "per_rule": per_rule,
            "counts": self.counts,
            "floors": [{"name": n, "found": f, "minimum": m} for n, f, m in self.floors],
            "notes": self.notes,
            "undecided_rule_groups": self.incomplete,
            "known_findings": [o.as_dict() for o in listed],
            "unlisted_violations": [o.as_dict() for o in unlisted],
            "checker_cmd": f"python3-vt -m rlxcheck --property {self.pid} --tier {self.tier}",
            "trusted_base": self.trusted,
            "repo_root": self.repo.root,
            "repo_digest": self.repo.digest(),
            "files_parsed": len(self.repo.modules),
            "exhaustive": True,
        }
        cov.update(self.extra)
        if selftest:
            cov["selftest"] = selftest
        ev = {
            "property_id": self.pid,
            "tier": self.tier,
            "seed": int(os.environ.get("VERIF_SEED", "0") or 0),
            "level": "other",
            "coverage": cov,
            "assumptions": self.trusted,
            "wall_s": round(time.time() - self.t0, 3),
            "violations": len(unlisted),
        }
        with open(os.path.join(evidence_dir, f"{self.pid}.json"), "w", encoding="utf-8") as fh:
            json.dump(ev, fh, indent=1, sort_keys=False)
            fh.write("\n")
