"""E5: symbolic shape inference (abstract interpretation with shapes as tuples of dimension symbols).

A shape is a tuple whose entries are dimension symbols (str), small ints, or None (unknown dimension); an unknown
shape is None.  Unknowns never alarm.  Alarms are raised only for
  * ``outer-product``  - broadcasting two operands that each carry a batch-like symbol once yields a result that
    carries it twice, e.g. (B,) - (B,1) -> (B,B);
  * ``reshape-permutes`` - a reshape whose target dims are a non-identity permutation of the source dims (a reshape used
    where a transpose is meant: elements of different samples / time steps get mixed);
  * ``rank-mismatch-call`` - a repo function whose numpydoc declares a rank receives an argument of a different rank.
"""
from __future__ import annotations

import ast
import re

from .repo import Repo, positional_params, param_names, bind_call


class Fn:
    """Function value: ('def', FunctionDef, module) | ('vmap', Fn, in_axes, out_axes) | ('module', out_dim) | ('opaque',)"""

    def __init__(self, kind, *args):
        self.kind, self.args = kind, args


UNARY = {"exp", "log", "abs", "absolute", "tanh", "square", "sqrt", "sign", "negative", "stop_gradient", "asarray", "array", "astype", "float32", "softplus", "sigmoid",
         "relu", "elu", "swish", "log_softmax", "softmax", "log1p", "expm1", "copy", "isfinite", "isnan", "logical_not", "floor", "ceil", "round", "cumsum", "cumprod",
         "int32", "float64", "flip", "sort", "nan_to_num", "device_put", "float", "int"}
NARY = {"minimum", "maximum", "add", "multiply", "subtract", "divide", "true_divide", "power", "where", "squared_error", "l2_loss", "huber_loss", "logical_and",
        "logical_or", "greater", "less", "equal", "clip", "mod", "fmod", "arctan2", "remainder"}
REDUCE = {"mean", "sum", "max", "min", "amax", "amin", "std", "var", "prod", "argmax", "argmin", "any", "all", "logsumexp", "median", "nanmean"}
BATCHY = {"B", "N", "E", "T", "P", "S", "H"}


class DrawShape(tuple):
    """Shape () of a single random draw (jax.random.normal / uniform without a shape)."""


class ShapeEngine:
    def __init__(self, repo: Repo, batchy=BATCHY, max_depth=3):
        self.repo = repo
        self.batchy = set(batchy)
        self.alarms = []  # (module relpath, lineno, kind, text, function qual)
        self.max_depth = max_depth
        self.trace = []  # (qual, expr text, shape) for evidence
        self.module_out = {}  # name of module-valued parameter/attr -> output feature dim (e.g. "critic": 1)
        self.module_tuple_out = {}  # name -> list of output dims for modules returning tuples (e.g. GaussianMLP: [O, O])
        self.class_self = {}  # class qual -> dict of self attribute values (function values, seeded shapes)
        self._sym = 0

    # ------------------------------------------------------------------ utilities
    def fresh(self, hint="d"):
        self._sym += 1
        return f"{hint}{self._sym}"

    def alarm(self, mi, node, kind, text, qual):
        self.alarms.append((mi.relpath if mi else "?", getattr(node, "lineno", 0), kind, text, qual))

    @staticmethod
    def is_shape(v):
        return isinstance(v, tuple) and (not v or v[0] not in ("tuple", "dim", "dims", "fn"))

    def broadcast(self, shapes, mi, node, qual):
        shapes = [s for s in shapes if s is not None or True]
        if any(s is None for s in shapes):
            known = [s for s in shapes if s is not None]
            if len(known) < 2:
                return None if not known or len(known) != len(shapes) else known[0]
            # alarm analysis is still possible on the known operands; result unknown
            self.broadcast(known, mi, node, qual)
            return None
        if not shapes:
            return ()
        rank = max(len(s) for s in shapes)
        out = []
        for i in range(rank):
            col = []
            for s in shapes:
                j = i - (rank - len(s))
                col.append(s[j] if j >= 0 else 1)
            d = 1
            unknown = False
            for x in col:
                if x == 1:
                    continue
                if x is None:
                    unknown = True
                elif d == 1:
                    d = x
                elif d != x:
                    unknown = True  # two different known symbols: not decided in general (seed imprecision) ...
                    if (d in self.batchy) != (x in self.batchy) and isinstance(d, str) and isinstance(x, str) and "*" not in d + x and not d.startswith("$") and not x.startswith("$"):
                        # ... but a per-sample axis aligned against a feature axis is a definite misalignment
                        self.alarm(mi, node, "batch-misaligned", f"broadcast of {' , '.join(str(s) for s in shapes)}: the per-sample axis `{d if d in self.batchy else x}` is aligned against `{x if d in self.batchy else d}`", qual)
            out.append(None if unknown and d == 1 else (d if not unknown else (d if all(x in (1, d, None) for x in col) else None)))
        res = tuple(out)
        # outer product: a batch-like symbol occurs more often in the result than in any operand
        for b in self.batchy:
            n_res = sum(1 for x in res if x == b)
            n_in = max(sum(1 for x in s if x == b) for s in shapes)
            if n_res > n_in and n_res >= 2:
                txt = " , ".join(str(s) for s in shapes)
                self.alarm(mi, node, "outer-product", f"broadcast of {txt} -> {res}: the per-sample axis `{b}` is duplicated (outer product instead of element-wise)", qual)
        return res

    # ------------------------------------------------------------------ function analysis
    def analyse(self, fn: ast.FunctionDef, mi, qual: str, arg_shapes: dict, fnenv: dict | None = None, depth: int = 0, self_attrs: dict | None = None):
        """Abstractly execute ``fn`` with parameter shapes ``arg_shapes``; returns the shape (or ('tuple', [...])) returned."""
        env = dict(arg_shapes)
        ptypes = {}
        for a in fn.args.posonlyargs + fn.args.args + fn.args.kwonlyargs:
            if a.annotation is not None and isinstance(a.annotation, (ast.Name, ast.Attribute)):
                r = self.repo.resolve_expr(mi, a.annotation)
                if r and r.startswith(self.repo.PKG + "."):
                    ptypes[a.arg] = r
        ctx = {"mi": mi, "qual": qual, "fnenv": dict(fnenv or {}), "depth": depth, "ret": [], "self": self_attrs if self_attrs is not None else {}, "ptypes": ptypes}
        self.block(fn.body, env, ctx)
        rets = ctx["ret"]
        if not rets:
            return None
        r0 = rets[0]
        for r in rets[1:]:
            if r != r0:
                return None
        return r0

    def block(self, stmts, env, ctx):
        for s in stmts:
            self.stmt(s, env, ctx)

    def stmt(self, s, env, ctx):
        if isinstance(s, ast.Assign):
            v = self.ev(s.value, env, ctx)
            for t in s.targets:
                self.assign(t, v, env, ctx)
        elif isinstance(s, ast.AnnAssign) and s.value is not None:
            self.assign(s.target, self.ev(s.value, env, ctx), env, ctx)
        elif isinstance(s, ast.AugAssign):
            a = self.ev(s.target, env, ctx)
            b = self.ev(s.value, env, ctx)
            v = self.broadcast([a, b], ctx["mi"], s, ctx["qual"]) if self.is_shape(a) or a is None else None
            self.assign(s.target, v, env, ctx)
        elif isinstance(s, ast.Return):
            ctx["ret"].append(self.ev(s.value, env, ctx) if s.value is not None else None)
        elif isinstance(s, ast.If):
            t = s.test
            if isinstance(t, ast.Compare) and len(t.ops) == 1 and isinstance(t.ops[0], ast.Eq) and isinstance(t.left, ast.Attribute) and t.left.attr == "ndim" and isinstance(t.comparators[0], ast.Constant):
                base = self.ev(t.left.value, env, ctx)
                if self.is_shape(base) and base is not None:
                    self.block(s.body if len(base) == t.comparators[0].value else s.orelse, env, ctx)
                    return
            e1, e2 = dict(env), dict(env)
            self.ev(s.test, env, ctx)
            self.block(s.body, e1, ctx)
            self.block(s.orelse, e2, ctx)
            for k in set(e1) | set(e2):
                env[k] = e1.get(k) if e1.get(k) == e2.get(k) else None
        elif isinstance(s, (ast.For, ast.While)):
            if isinstance(s, ast.For):
                if isinstance(s.iter, ast.Call) and isinstance(s.iter.func, ast.Name) and s.iter.func.id == "zip" and isinstance(s.target, ast.Tuple):
                    for tgt, a in zip(s.target.elts, s.iter.args):
                        v = self.ev(a, env, ctx)
                        self.assign(tgt, tuple(v[1:]) if self.is_shape(v) and v else None, env, ctx)
                else:
                    it = self.ev(s.iter, env, ctx)
                    self.assign(s.target, None if not self.is_shape(it) or not it else tuple(it[1:]), env, ctx)
            before = dict(env)
            self.block(s.body, env, ctx)
            for k in set(env):
                if k in before and before[k] != env[k]:
                    env[k] = None
        elif isinstance(s, (ast.FunctionDef, ast.AsyncFunctionDef)):
            f = Fn("def", s, ctx["mi"], dict(env))
            for dec in s.decorator_list[::-1]:
                f = self.decorate(f, dec, env, ctx)
            ctx["fnenv"][s.name] = f
        elif isinstance(s, ast.Expr):
            self.ev(s.value, env, ctx)
        elif isinstance(s, ast.With):
            self.block(s.body, env, ctx)

    def decorate(self, f, dec, env, ctx):
        name = self.repo.resolve_expr(ctx["mi"], dec.func if isinstance(dec, ast.Call) else dec) if isinstance(dec.func if isinstance(dec, ast.Call) else dec, (ast.Name, ast.Attribute)) else None
        if isinstance(dec, ast.Call) and name == "functools.partial" and dec.args:
            inner = self.repo.resolve_expr(ctx["mi"], dec.args[0]) if isinstance(dec.args[0], (ast.Name, ast.Attribute)) else None
            kw = {k.arg: k.value for k in dec.keywords}
            if inner in ("jax.vmap", "flax.nnx.vmap"):
                return Fn("vmap", f, self.lit(kw.get("in_axes"), 0), self.lit(kw.get("out_axes"), 0))
            return f
        if name in ("jax.vmap", "flax.nnx.vmap"):
            kw = {k.arg: k.value for k in dec.keywords} if isinstance(dec, ast.Call) else {}
            return Fn("vmap", f, self.lit(kw.get("in_axes"), 0), self.lit(kw.get("out_axes"), 0))
        if name in ("flax.nnx.scan", "jax.lax.scan"):
            kw = {k.arg: k.value for k in dec.keywords} if isinstance(dec, ast.Call) else {}
            ia = kw.get("in_axes")
            axes = []
            if isinstance(ia, (ast.Tuple, ast.List)):
                for x in ia.elts:
                    axes.append(x.value if isinstance(x, ast.Constant) and isinstance(x.value, int) else None)
            return Fn("scan", f, axes)
        return f

    @staticmethod
    def lit(e, default):
        if e is None:
            return default
        try:
            return ast.literal_eval(e)
        except Exception:
            return default

    def assign(self, t, v, env, ctx):
        if isinstance(t, ast.Name):
            env[t.id] = v
        elif isinstance(t, (ast.Tuple, ast.List)):
            if isinstance(v, tuple) and v and v[0] == "tuple":
                for el, x in zip(t.elts, v[1]):
                    self.assign(el, x, env, ctx)
            elif isinstance(v, tuple) and v and v[0] == "dims":
                for el, x in zip(t.elts, v[1]):
                    self.assign(el, ("dim", x), env, ctx)
            else:
                for el in t.elts:
                    self.assign(el, None, env, ctx)
        elif isinstance(t, ast.Attribute) and isinstance(t.value, ast.Name) and t.value.id == "self":
            ctx["self"][t.attr] = v

    # ------------------------------------------------------------------ expressions
    def dim_of(self, e, env, ctx):
        """Evaluate an expression used as a dimension: int | symbol | None."""
        if isinstance(e, ast.Constant) and isinstance(e.value, int):
            return e.value
        if isinstance(e, ast.UnaryOp) and isinstance(e.op, ast.USub) and isinstance(e.operand, ast.Constant):
            return -e.operand.value
        v = self.ev(e, env, ctx)
        if isinstance(v, tuple) and v and v[0] == "dim":
            return v[1]
        if isinstance(e, ast.Name):
            return f"${e.id}"  # an integer-valued parameter used as a dimension (e.g. encoder_horizon)
        if isinstance(e, ast.Attribute):
            return f"${ast.unparse(e)}"
        return None

    def ev(self, e, env, ctx):
        try:
            v = self._ev(e, env, ctx)
        except RecursionError:
            raise
        if self.is_shape(v) and ctx["depth"] == 0 and not isinstance(e, (ast.Name, ast.Constant)):
            self.trace.append((ctx["qual"], ast.unparse(e)[:70], v))
        return v

    def _ev(self, e, env, ctx):
        mi, qual = ctx["mi"], ctx["qual"]
        if e is None:
            return None
        if isinstance(e, ast.Constant):
            return () if isinstance(e.value, (int, float, bool)) else None
        if isinstance(e, ast.Name):
            if e.id in env:
                return env[e.id]
            if e.id in ctx["fnenv"]:
                return ("fn", ctx["fnenv"][e.id])
            return None
        if isinstance(e, ast.Tuple) or isinstance(e, ast.List):
            return ("tuple", [self.ev(x, env, ctx) for x in e.elts])
        if isinstance(e, ast.UnaryOp):
            return self.ev(e.operand, env, ctx)
        if isinstance(e, ast.BinOp):
            a, b = self.ev(e.left, env, ctx), self.ev(e.right, env, ctx)
            if isinstance(a, tuple) and a and a[0] in ("dim",) or isinstance(b, tuple) and b and b[0] in ("dim",):
                return ()
            if isinstance(a, tuple) and a and a[0] in ("tuple", "dims") or isinstance(b, tuple) and b and b[0] in ("tuple", "dims"):
                # tuple concatenation of shapes: (n, h) + action_shape
                if isinstance(e.op, ast.Add):
                    da = self.dims_of_value(a)
                    db = self.dims_of_value(b)
                    if da is not None and db is not None:
                        return ("dims", tuple(da) + tuple(db))
                return None
            if isinstance(e.op, ast.MatMult):
                if self.is_shape(a) and self.is_shape(b) and a is not None and b is not None and a and b:
                    return tuple(a[:-1]) + tuple(b[1:]) if len(b) > 1 else tuple(a[:-1])
                return None
            for x_, y_ in ((a, b), (b, a)):
                if isinstance(x_, DrawShape) and self.is_shape(y_) and y_ is not None and any(d not in (1, None) for d in y_):
                    self.alarm(mi, e, "shared-draw", f"one random number is broadcast over an array of shape {y_}: all components receive the same noise", qual)
            return self.broadcast([a if self.is_shape(a) or a is None else None, b if self.is_shape(b) or b is None else None], mi, e, qual)
        if isinstance(e, ast.Compare):
            vals = [self.ev(e.left, env, ctx)] + [self.ev(c, env, ctx) for c in e.comparators]
            vals = [v if self.is_shape(v) else None for v in vals]
            return self.broadcast(vals, mi, e, qual)
        if isinstance(e, ast.BoolOp):
            for v in e.values:
                self.ev(v, env, ctx)
            return ()
        if isinstance(e, ast.IfExp):
            a, b = self.ev(e.body, env, ctx), self.ev(e.orelse, env, ctx)
            return a if a == b else None
        if isinstance(e, ast.Attribute):
            if isinstance(e.value, ast.Name) and e.value.id == "self" and e.attr in ctx["self"]:
                return ctx["self"][e.attr]
            base = self.ev(e.value, env, ctx)
            if e.attr == "shape":
                return ("dims", base) if self.is_shape(base) and base is not None else None
            if e.attr == "T" and self.is_shape(base) and base is not None:
                return tuple(base[::-1])
            if e.attr == "ndim":
                return ()
            if e.attr in ("value",):
                return base
            if isinstance(base, tuple) and base and base[0] == "tuple":
                return None
            key = ast.unparse(e)
            if key in env:
                return env[key]
            return None
        if isinstance(e, ast.Subscript):
            return self.subscript(e, env, ctx)
        if isinstance(e, ast.Call):
            return self.call(e, env, ctx)
        if isinstance(e, ast.Starred):
            return self.ev(e.value, env, ctx)
        if isinstance(e, ast.Lambda):
            return ("fn", Fn("lambda", e, mi, dict(env)))
        return None

    def dims_of_value(self, v):
        if isinstance(v, tuple) and v and v[0] == "dims":
            return v[1]
        if isinstance(v, tuple) and v and v[0] == "tuple":
            out = []
            for x in v[1]:
                if isinstance(x, tuple) and x and x[0] == "dim":
                    out.append(x[1])
                elif x == ():
                    out.append(None)
                else:
                    return None
            return tuple(out)
        return None

    def subscript(self, e, env, ctx):
        base = self.ev(e.value, env, ctx)
        s = e.slice
        if isinstance(base, tuple) and base and base[0] == "dims":
            dims = base[1]
            if isinstance(s, ast.Constant) and isinstance(s.value, int):
                try:
                    return ("dim", dims[s.value])
                except IndexError:
                    return None
            if isinstance(s, ast.Slice):
                lo = s.lower.value if isinstance(s.lower, ast.Constant) else None
                hi = s.upper.value if isinstance(s.upper, ast.Constant) else None
                if (s.lower is None or lo is not None) and (s.upper is None or hi is not None):
                    return ("dims", tuple(dims[lo:hi]))
            return None
        if isinstance(base, tuple) and base and base[0] == "tuple":
            if isinstance(s, ast.Constant) and isinstance(s.value, int) and -len(base[1]) <= s.value < len(base[1]):
                return base[1][s.value]
            return None
        if not self.is_shape(base) or base is None:
            # still evaluate index expressions for alarms
            return None
        items = list(s.elts) if isinstance(s, ast.Tuple) else [s]
        out, i = [], 0
        adv = []  # shapes of advanced (array) indices
        n_specified = sum(1 for it in items if not (isinstance(it, ast.Constant) and it.value is None) and not self.is_newaxis(it, ctx) and not (isinstance(it, ast.Constant) and it.value is Ellipsis))
        for it in items:
            if isinstance(it, ast.Constant) and it.value is Ellipsis:
                k = len(base) - n_specified
                out += list(base[i:i + k])
                i += k
            elif (isinstance(it, ast.Constant) and it.value is None) or self.is_newaxis(it, ctx):
                out.append(1)
            elif isinstance(it, ast.Slice):
                if i >= len(base):
                    return None
                full = it.lower is None and it.upper is None
                rev = full or (it.lower is None and it.upper is None)
                out.append(base[i] if full else self._slice_dim(base[i], it))
                i += 1
            else:
                v = self.ev(it, env, ctx)
                if i >= len(base):
                    return None
                if v == () or (isinstance(v, tuple) and v and v[0] == "dim") or (isinstance(it, ast.Constant) and isinstance(it.value, int)) or v is None and isinstance(it, (ast.Name, ast.BinOp)) and not self._arrayish(it, env):
                    pass  # integer index: axis dropped
                elif self.is_shape(v) and v is not None:
                    adv.append((len(out), v))
                    out.append("__adv__")
                else:
                    return None
                i += 1
        out += list(base[i:])
        if adv:
            bshape = self.broadcast([a for _, a in adv], ctx["mi"], e, ctx["qual"])
            if bshape is None:
                return None
            first = adv[0][0]
            res = [x for x in out if x != "__adv__"]
            res[first:first] = list(bshape)
            return tuple(res)
        return tuple(out)

    @staticmethod
    def _slice_dim(d, sl):
        """Length of a constant-bounded slice of an axis of length d (axes are assumed at least as long as the constants):
        [:k] -> k, [-k:] -> k, [a:b] -> b-a, [:-k] / [k:] -> 'd-k'.  Anything else: unknown."""
        if sl.step is not None and not (isinstance(sl.step, ast.Constant) and sl.step.value in (None, 1, -1)):
            return None

        def const(x):
            if x is None:
                return None
            if isinstance(x, ast.Constant) and isinstance(x.value, int) and not isinstance(x.value, bool):
                return x.value
            if isinstance(x, ast.UnaryOp) and isinstance(x.op, ast.USub) and isinstance(x.operand, ast.Constant) and isinstance(x.operand.value, int):
                return -x.operand.value
            return "?"
        lo, hi = const(sl.lower), const(sl.upper)
        if lo == "?" or hi == "?":
            return None
        if sl.step is not None and isinstance(sl.step, ast.Constant) and sl.step.value == -1:
            return d if lo is None and hi is None else None
        if lo is None and hi is None:
            return d
        if lo in (None, 0) and hi is not None:
            if hi > 0:
                return hi
            if hi < 0 and isinstance(d, str) and "*" not in d and "-" not in d:
                return f"{d}-{-hi}"
            if hi < 0 and isinstance(d, int):
                return d + hi
            return None
        if hi is None and lo is not None:
            if lo < 0:
                return -lo
            if isinstance(d, str) and "*" not in d and "-" not in d:
                return f"{d}-{lo}"
            if isinstance(d, int):
                return d - lo
            return None
        if lo is not None and hi is not None and lo >= 0 and hi >= lo:
            return hi - lo
        return None

    @staticmethod
    def _sum_dims(col):
        """Sum of axis lengths for a concatenation: ints and at most one 'S-k' term with the ints adding up to k."""
        if any(c is None for c in col):
            return None
        n = sum(c for c in col if isinstance(c, int))
        syms = [c for c in col if isinstance(c, str)]
        if not syms:
            return n
        if len(syms) == 1:
            s0 = syms[0]
            if "-" in s0 and "*" not in s0:
                base, _, k = s0.rpartition("-")
                if k.isdigit():
                    k = int(k)
                    return base if n == k else (f"{base}-{k - n}" if n < k else None)
            return s0 if n == 0 else None
        return None

    @staticmethod
    def _slice_keeps(sl):
        """x[:, :k] keeps the *kind* of the axis only for full slices; partial slices give an unknown length."""
        return False

    def _arrayish(self, it, env):
        return isinstance(it, ast.Name) and self.is_shape(env.get(it.id)) and env.get(it.id) not in (None, ())

    def is_newaxis(self, it, ctx):
        return isinstance(it, ast.Attribute) and it.attr == "newaxis"

    # ------------------------------------------------------------------ calls
    def call(self, e: ast.Call, env, ctx):
        mi, qual = ctx["mi"], ctx["qual"]
        f = e.func
        kw = {k.arg: k.value for k in e.keywords if k.arg}
        # curried: vmap(f, in_axes)(args) / partial(...)(args)
        if isinstance(f, ast.Call):
            fv = self.ev(f, env, ctx)
            if isinstance(fv, tuple) and fv and fv[0] == "fn":
                return self.apply(fv[1], [self.ev(a, env, ctx) for a in e.args], {k: self.ev(v, env, ctx) for k, v in kw.items()}, e, ctx)
            return None
        name = None
        if isinstance(f, (ast.Name, ast.Attribute)):
            root = f
            while isinstance(root, ast.Attribute):
                root = root.value
            if isinstance(root, ast.Name) and root.id not in env and root.id not in ctx["fnenv"] and root.id != "self":
                dotted = self.repo.resolve_expr(mi, f)
                if dotted:
                    for p in ("jax.numpy.", "numpy.", "jax.lax.", "jax.nn.", "optax.", "flax.nnx.", "jax.", "chex.", "jax.random.", "math.", "functools."):
                        if dotted.startswith(p):
                            name = dotted[len(p):]
                            break
                    if name is None and dotted.startswith(self.repo.PKG + "."):
                        return self.repo_call(dotted, e, env, ctx)
                    if name is None and isinstance(f, ast.Name) and f.id in ("len", "float", "int", "abs", "min", "max", "sum", "range", "tuple", "list", "zip", "enumerate"):
                        name = f.id
        args = [self.ev(a, env, ctx) for a in e.args]
        if name is not None:
            return self.libcall(name.split(".")[-1], name, e, args, kw, env, ctx)
        # local function value
        if isinstance(f, ast.Name) and f.id in ctx["fnenv"]:
            return self.apply(ctx["fnenv"][f.id], args, {k: self.ev(v, env, ctx) for k, v in kw.items()}, e, ctx)
        if isinstance(f, ast.Name) and isinstance(env.get(f.id), tuple) and env[f.id] and env[f.id][0] == "fn":
            return self.apply(env[f.id][1], args, {k: self.ev(v, env, ctx) for k, v in kw.items()}, e, ctx)
        if isinstance(f, ast.Attribute):
            # self.<callable attr>
            if isinstance(f.value, ast.Name) and f.value.id == "self" and isinstance(ctx["self"].get(f.attr), tuple) and ctx["self"][f.attr] and ctx["self"][f.attr][0] == "fn":
                return self.apply(ctx["self"][f.attr][1], args, {k: self.ev(v, env, ctx) for k, v in kw.items()}, e, ctx)
            # tfp distribution constructors: report (loc, scale) shapes
            if f.attr in ("MultivariateNormalDiag", "Normal") and (kw.get("loc") is not None):
                sc_e = kw.get("scale_diag", kw.get("scale"))
                return ("tuple", [self.ev(kw["loc"], env, ctx), self.ev(sc_e, env, ctx) if sc_e is not None else None])
            # method of a parameter with a repo class annotation (dynamics_model.base_distribution(...))
            if isinstance(f.value, ast.Name) and f.value.id in ctx.get("ptypes", {}) and ctx["depth"] < self.max_depth:
                cq = ctx["ptypes"][f.value.id]
                mm = self.repo.method(cq, f.attr)
                if mm is not None:
                    mfn = mm[1]
                    mmi = self.repo.cls(mm[0])._module
                    mp = [p for p in positional_params(mfn) if p != "self"]
                    ash = {}
                    for pnm, a in zip(mp, args):
                        ash[pnm] = a
                    for k, v in kw.items():
                        ash[k] = self.ev(v, env, ctx)
                    declared = doc_shapes(mfn)
                    for pnm, shp in ash.items():
                        d = declared.get(pnm)
                        if d is not None and self.is_shape(shp) and shp is not None and len(d) != len(shp):
                            self.alarm(mi, e, "rank-mismatch-call", f"`{pnm}` of {cq.rsplit('.', 1)[1]}.{f.attr} is documented with rank {len(d)} {tuple(d)} but receives shape {shp}", qual)
                    r_ = self.analyse(mfn, mmi, f"{cq}.{f.attr}", ash, {}, ctx["depth"] + 1, dict(self.class_self.get(cq, {})))
                    if r_ is not None:
                        return r_
                    # abstract / undecided method body: fall back to the generic method heuristics below
            recv = self.ev(f.value, env, ctx)
            m = f.attr
            if self.is_shape(recv) and recv is not None:
                if m in REDUCE or m in UNARY or m in ("squeeze", "flatten", "ravel", "reshape", "transpose", "swapaxes", "clip", "dot", "at", "set", "add", "get", "item", "tolist", "min", "max"):
                    if m == "item":
                        return ()
                    return self.libcall(m, m, e, [recv] + args, kw, env, ctx, method=True)
            # x.at[idx].set(v) / .add(v): shape of x
            if m in ("set", "add", "multiply", "min", "max", "get") and isinstance(f.value, ast.Subscript) and isinstance(f.value.value, ast.Attribute) and f.value.value.attr == "at":
                return self.ev(f.value.value.value, env, ctx)
            # module-valued parameter methods
            key = ast.unparse(f.value)
            if m == "log_probability" and args and self.is_shape(args[0]) and args[0] is not None:
                return tuple(args[0][:-1])
            if m == "sample" and args and self.is_shape(args[0]) and args[0] is not None and "key" not in key:
                return tuple(args[0][:-1]) + (self.module_out.get(key + ".sample", "A"),)
            full = ast.unparse(f)
            if full in self.module_out and args and self.is_shape(args[0]) and args[0] is not None:
                return tuple(args[0][:-1]) + (self.module_out[full],)
            return None
        # call of a module-valued parameter: q(x), critic(x)
        if isinstance(f, ast.Name):
            if f.id in self.module_tuple_out and args and self.is_shape(args[0]) and args[0] is not None:
                return ("tuple", [tuple(args[0][:-1]) + (d,) for d in self.module_tuple_out[f.id]])
            if f.id in self.module_out and args and self.is_shape(args[0]) and args[0] is not None:
                return tuple(args[0][:-1]) + (self.module_out[f.id],)
        return None

    def axes(self, e, rank):
        if e is None:
            return None
        try:
            v = ast.literal_eval(e)
        except Exception:
            return "unknown"
        if isinstance(v, int):
            v = (v,)
        if isinstance(v, (tuple, list)) and all(isinstance(x, int) for x in v):
            return tuple(x % rank if rank else x for x in v)
        return "unknown"

    def libcall(self, short, name, e, args, kw, env, ctx, method=False):
        mi, qual = ctx["mi"], ctx["qual"]
        a0 = args[0] if args else None
        sh = lambda v: v if self.is_shape(v) else None
        if short in ("shape",):
            return ("dims", a0) if sh(a0) is not None else None
        if short == "len":
            return ("dim", a0[0]) if sh(a0) else (("dim", len(a0[1])) if isinstance(a0, tuple) and a0 and a0[0] == "tuple" else None)
        if short in UNARY:
            return sh(a0)
        if short in NARY:
            vals = [sh(x) for x in args] + [sh(self.ev(v, env, ctx)) for k, v in kw.items() if k in ("predictions", "targets", "x", "y", "a_min", "a_max", "min", "max")]
            vals = [v for v, raw in zip(vals, list(args) + [None] * 10) if not (isinstance(raw, tuple) and raw and raw[0] == "dim")]
            return self.broadcast(vals, mi, e, qual)
        if short in REDUCE:
            if sh(a0) is None:
                return None
            axis_e = kw.get("axis", e.args[(0 if method else 1)] if len(e.args) > (0 if method else 1) else None)
            keep = bool(self.lit(kw.get("keepdims"), False))
            if axis_e is None:
                return tuple(1 for _ in a0) if keep else ()
            ax = self.axes(axis_e, len(a0))
            if ax == "unknown":
                return None
            return tuple((1 if i in ax else d) for i, d in enumerate(a0) if keep or i not in ax)
        if short == "squeeze":
            if sh(a0) is None:
                return None
            axis_e = kw.get("axis", e.args[(0 if method else 1)] if len(e.args) > (0 if method else 1) else None)
            if axis_e is None:
                return tuple(d for d in a0 if d != 1)
            ax = self.axes(axis_e, len(a0))
            return None if ax == "unknown" else tuple(d for i, d in enumerate(a0) if i not in ax)
        if short in ("flatten", "ravel"):
            if sh(a0) is None:
                return None
            rest = [d for d in a0 if d != 1]
            return (rest[0],) if len(rest) == 1 else ((1,) if not rest else ("*".join(sorted(map(str, rest))),))
        if short == "reshape":
            src = sh(a0)
            dim_args = e.args[(0 if method else 1):]
            if len(dim_args) == 1 and isinstance(dim_args[0], (ast.Tuple, ast.List)):
                dim_args = dim_args[0].elts
            elif len(dim_args) == 1 and not isinstance(dim_args[0], (ast.Constant, ast.UnaryOp, ast.Starred, ast.Name, ast.Attribute, ast.BinOp)):
                return None
            elif len(dim_args) == 1 and isinstance(dim_args[0], ast.BinOp):
                v = self.ev(dim_args[0], env, ctx)
                d = self.dims_of_value(v)
                if d is None:
                    return None
                return self.reshape(src, list(d), mi, e, qual)
            tgt = []
            for d in dim_args:
                if isinstance(d, ast.Starred):
                    v = self.ev(d.value, env, ctx)
                    dd = self.dims_of_value(v)
                    if dd is None:
                        return None
                    tgt += list(dd)
                else:
                    tgt.append(self.dim_of(d, env, ctx))
            return self.reshape(src, tgt, mi, e, qual)
        if short in ("transpose", "permute_dims"):
            if sh(a0) is None:
                return None
            perm = e.args[(0 if method else 1):]
            if len(perm) == 1:
                p = self.lit(perm[0], None)
                if p is None:
                    v = self.ev(perm[0], env, ctx)
                    return None
                perm_v = list(p) if isinstance(p, (list, tuple)) else None
            elif not perm:
                perm_v = list(range(len(a0)))[::-1]
            else:
                perm_v = [self.lit(x, None) for x in perm]
            if perm_v is None or any(not isinstance(x, int) for x in perm_v) or len(perm_v) != len(a0):
                return None
            return tuple(a0[i] for i in perm_v)
        if short == "swapaxes" and sh(a0) is not None:
            i, j = [self.lit(x, None) for x in e.args[(0 if method else 1):][:2]] if len(e.args[(0 if method else 1):]) >= 2 else (None, None)
            if isinstance(i, int) and isinstance(j, int):
                l = list(a0)
                l[i], l[j] = l[j], l[i]
                return tuple(l)
            return None
        if short in ("concatenate", "concat", "hstack", "vstack", "stack"):
            parts = a0[1] if isinstance(a0, tuple) and a0 and a0[0] == "tuple" else None
            if not parts or any(not self.is_shape(p) or p is None for p in parts):
                return None
            rank = len(parts[0])
            if any(len(p) != rank for p in parts):
                return None
            if short == "stack":
                ax = self.lit(kw.get("axis"), 0)
                l = list(parts[0])
                l.insert(ax if ax >= 0 else rank + 1 + ax, len(parts))
                return tuple(l)
            ax = {"hstack": (0 if rank == 1 else 1), "vstack": 0}.get(short)
            if ax is None:
                ax = self.lit(kw.get("axis", e.args[1] if len(e.args) > 1 else None), 0)
            if not isinstance(ax, int) or rank == 0:
                return None
            ax %= rank
            out = []
            for i in range(rank):
                col = [p[i] for p in parts]
                if i == ax:
                    out.append(self._sum_dims(col))
                else:
                    out.append(col[0] if all(c == col[0] for c in col) else None)
            return tuple(out)
        if short == "expand_dims" and sh(a0) is not None:
            ax = self.lit(kw.get("axis", e.args[1] if len(e.args) > 1 else None), None)
            if isinstance(ax, int):
                l = list(a0)
                l.insert(ax if ax >= 0 else len(a0) + 1 + ax, 1)
                return tuple(l)
            return None
        if short in ("zeros", "ones", "empty", "full", "normal", "uniform"):
            shp = kw.get("shape", e.args[1] if short in ("normal", "uniform") and len(e.args) > 1 else (e.args[0] if e.args and short not in ("normal", "uniform") else None))
            if shp is None:
                # a single random number; marked so that broadcasting it over an array is visible (one draw shared by all components)
                return DrawShape() if short in ("normal", "uniform") and ("random." in (name or "") or name == short) else ()
            v = self.ev(shp, env, ctx)
            d = self.dims_of_value(v)
            if d is not None:
                return tuple(d)
            if isinstance(v, tuple) and v and v[0] == "dim":
                return (v[1],)
            dd = self.dim_of(shp, env, ctx)
            return (dd,) if dd is not None and not isinstance(shp, (ast.Tuple, ast.List)) else None
        if short in ("zeros_like", "ones_like", "full_like"):
            return sh(a0)
        if short in ("arange", "linspace"):
            n = e.args[0] if short == "arange" and len(e.args) == 1 else (e.args[2] if short == "linspace" and len(e.args) > 2 else kw.get("num"))
            return (self.dim_of(n, env, ctx),) if n is not None else (None,)
        if short == "take_along_axis":
            return self.broadcast([sh(args[1]) if len(args) > 1 else None], mi, e, qual) if len(args) > 1 else None
        if short == "broadcast_to":
            v = args[1] if len(args) > 1 else None
            d = self.dims_of_value(v) if v is not None else None
            return tuple(d) if d is not None else None
        if short in ("vmap",):
            fv = args[0] if args else None
            if isinstance(fv, tuple) and fv and fv[0] == "fn":
                return ("fn", Fn("vmap", fv[1], self.lit(kw.get("in_axes", e.args[1] if len(e.args) > 1 else None), 0), self.lit(kw.get("out_axes"), 0)))
            return None
        if short == "merge" and getattr(self, "merge_out", None):
            return ("fn", Fn("module_tuple", list(self.merge_out)))
        if short in ("jit", "partial", "cached_partial", "checkpoint", "remat"):
            fv = args[0] if args else None
            if isinstance(fv, tuple) and fv and fv[0] == "fn" and len(args) == 1 and not kw:
                return fv
            return None
        if short in ("dot", "matmul"):
            a, b = sh(a0), sh(args[1]) if len(args) > 1 else None
            if a is None or b is None:
                return None
            return tuple(a[:-1]) + tuple(b[1:]) if len(b) > 1 else tuple(a[:-1])
        if short == "split":
            return None
        if short in ("float", "int", "sum", "abs", "min", "max") and not method:
            return ()
        return None

    def reshape(self, src, tgt, mi, node, qual):
        if any(t is None for t in tgt if t != -1) and -1 not in tgt:
            return tuple(tgt)
        out = list(tgt)
        if src is not None and -1 in out:
            known_t = [t for t in out if t != -1]
            rem = [d for d in src if d != 1]
            ok = True
            for t in known_t:
                if t == 1:
                    continue
                if t in rem:
                    rem.remove(t)
                else:
                    ok = False
                    break
            if ok and all(r is not None for r in rem):
                out[out.index(-1)] = rem[0] if len(rem) == 1 else (1 if not rem else "*".join(sorted(map(str, rem))))
            else:
                out[out.index(-1)] = None
        res = tuple(out)
        # reshape as transpose: same multiset of (non-1, known) dims in a different order
        if src is not None:
            s = [d for d in src if d != 1]
            t = [d for d in res if d != 1]
            if len(s) >= 2 and None not in s and None not in t and sorted(map(str, s)) == sorted(map(str, t)) and s != t and len(set(map(str, s))) == len(s):
                self.alarm(mi, node, "reshape-permutes", f"reshape of {src} to {res} reorders the axes without moving the data (a transpose is meant): entries of different samples / time steps are mixed", qual)
        return res

    # ------------------------------------------------------------------ function application
    def apply(self, fv: Fn, args, kws, node, ctx):
        if fv.kind == "vmap":
            inner, in_axes, out_axes = fv.args
            n = len(args)
            axes = list(in_axes) if isinstance(in_axes, (tuple, list)) else [in_axes] * n
            axes += [None] * (n - len(axes))
            mapped = None
            new_args = []
            for a, ax in zip(args, axes):
                if ax is None or not self.is_shape(a) or a is None:
                    new_args.append(a if ax is None else None)
                    if ax is not None and a is None:
                        pass
                    continue
                if not isinstance(ax, int) or not a or ax >= len(a):
                    if isinstance(ax, int) and self.is_shape(a) and (not a or ax >= len(a)):
                        self.alarm(ctx["mi"], node, "vmap-rank", f"vmap over axis {ax} of an operand of shape {a}", ctx["qual"])
                    new_args.append(None)
                    continue
                if mapped is None:
                    mapped = a[ax]
                new_args.append(tuple(d for i, d in enumerate(a) if i != ax))
            r = self.apply(inner, new_args, kws, node, ctx)
            return self._add_axis(r, mapped, out_axes if isinstance(out_axes, int) else 0)
        if fv.kind in ("def", "lambda"):
            fn, mi, closure = fv.args[0], fv.args[1], fv.args[2] if len(fv.args) > 2 else {}
            if ctx["depth"] >= self.max_depth:
                return None
            env = dict(closure)
            if fv.kind == "lambda":
                params = [a.arg for a in fn.args.args]
                for p, a in zip(params, args):
                    env[p] = a
                c2 = {"mi": mi, "qual": ctx["qual"] + ".<lambda>", "fnenv": dict(ctx["fnenv"]), "depth": ctx["depth"] + 1, "ret": [], "self": ctx["self"]}
                return self.ev(fn.body, env, c2)
            params = positional_params(fn)
            for p, a in zip(params, args):
                env[p] = a
            for k, v in kws.items():
                env[k] = v
            return self.analyse(fn, mi, ctx["qual"] + ".<locals>." + fn.name, env, ctx["fnenv"], ctx["depth"] + 1, ctx["self"])
        if fv.kind == "scan":
            inner, axes = fv.args
            new_args = []
            for i, a in enumerate(args):
                ax = axes[i] if i < len(axes) else None
                if isinstance(ax, int) and self.is_shape(a) and a is not None and a and ax < len(a):
                    new_args.append(tuple(d for j, d in enumerate(a) if j != ax))
                elif isinstance(ax, int) and isinstance(a, tuple) and a and a[0] == "tuple":
                    new_args.append(("tuple", [tuple(d for j, d in enumerate(x) if j != ax) if self.is_shape(x) and x is not None and x else x for x in a[1]]))
                else:
                    new_args.append(a)
            self.apply(inner, new_args, kws, node, ctx)  # body analysed for alarms; scan result shapes are not tracked
            return None
        if fv.kind == "module":
            a0 = args[0] if args else None
            if self.is_shape(a0) and a0 is not None:
                return tuple(a0[:-1]) + (fv.args[0],)
        if fv.kind == "module_tuple":
            a0 = args[-1] if args else None
            if self.is_shape(a0) and a0 is not None:
                return ("tuple", [tuple(a0[:-1]) + (d,) for d in fv.args[0]])
        return None

    def _add_axis(self, r, dim, at):
        if r is None:
            return None
        if isinstance(r, tuple) and r and r[0] == "tuple":
            return ("tuple", [self._add_axis(x, dim, at) for x in r[1]])
        if self.is_shape(r):
            l = list(r)
            l.insert(at, dim)
            return tuple(l)
        return None

    def repo_call(self, dotted, e, env, ctx):
        try:
            mi2, node = self.repo.lookup(dotted)
        except Exception:
            return None
        if not isinstance(node, ast.FunctionDef) or ctx["depth"] >= self.max_depth:
            return None
        node._module = mi2
        b = bind_call(node, e)
        arg_shapes = {}
        for p, a in b.items():
            if isinstance(a, list):
                continue
            arg_shapes[p] = self.ev(a, env, ctx)
        declared = doc_shapes(node)
        for p, shp in arg_shapes.items():
            d = declared.get(p)
            if d is not None and self.is_shape(shp) and shp is not None and len(d) != len(shp):
                self.alarm(ctx["mi"], e, "rank-mismatch-call", f"`{p}` of {node.name} is documented with rank {len(d)} {tuple(d)} but receives shape {shp}", ctx["qual"])
        f = Fn("def", node, mi2, {})
        for dec in node.decorator_list[::-1]:
            f = self.decorate(f, dec, env, {**ctx, "mi": mi2})
        order = positional_params(node)
        args = [arg_shapes.get(p) for p in order]
        c2 = {**ctx, "qual": f"{mi2.name}.{node.name}", "mi": mi2}
        if f.kind == "vmap":
            return self.apply(f, args, {}, e, {**ctx})
        return self.analyse(node, mi2, f"{mi2.name}.{node.name}", {p: arg_shapes.get(p) for p in param_names(node)}, {}, ctx["depth"] + 1, {})


_SHAPE_RE = re.compile(r"^\s*(\w+)\s*:\s*[^\n]*?shape\s*\(([^)]*)\)", re.M)


def doc_shapes(fn: ast.FunctionDef) -> dict:
    """Parameter -> tuple of dimension names from numpydoc lines `name : array, shape (a, b)`."""
    doc = ast.get_docstring(fn) or ""
    out = {}
    # only the Parameters section
    m = re.search(r"Parameters\s*\n\s*-+\s*\n(.*?)(\n\s*Returns\s*\n\s*-+|\Z)", doc, re.S)
    sect = m.group(1) if m else ""
    for name, dims in _SHAPE_RE.findall(sect):
        parts = [d.strip() for d in dims.split(",") if d.strip()]
        out[name] = tuple(parts)
    return out
