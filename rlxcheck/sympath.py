"""Per-path abstract evaluation: enumerate the acyclic paths of a CFG region and propagate an environment
name -> polynomial normal form along each path (constant-propagation style dataflow with the polynomial domain).

No solver and no search over values: every path is a finite statement sequence; assignments update the
environment with the normal form of their right-hand side evaluated in the current environment.  Branch
feasibility uses the same literal bookkeeping as ``CFG.paths_avoiding`` (contradictory identical conditions).
"""
from __future__ import annotations

import ast
from .expand import clone

from .cfg import CFG
from .nf import NF, Scope, Poly


def enumerate_paths(cfg: CFG, src: int, stops: set, first_label=None, max_paths: int = 400, loop_once: bool = True, feasible: bool = True):
    """All paths from ``src`` to any node in ``stops`` visiting each node at most once (loop headers: once more to exit).

    Returns list of [(node id, label taken out of it or None for the last)].
    """
    out = []
    stack = [(src, [], frozenset(), frozenset())]
    while stack:
        x, path, seen, assume = stack.pop()
        node = cfg.nodes[x]
        if x in stops and path:
            out.append(path + [(x, None)])
            if len(out) > max_paths:
                raise RuntimeError("too many paths")
            continue
        second_visit = loop_once and sum(1 for p_, _ in path if p_ == x) >= 1
        for s, lab in node.succ:
            if not path and first_label is not None and lab != first_label:
                continue
            if second_visit and lab is True and (node.kind == "for" or (node.kind == "test" and isinstance(node.ast, ast.While))):
                continue   # second arrival at a loop header: exit only
            a2 = assume
            if feasible and node.kind == "test" and hasattr(node.ast, "test") and lab in (True, False):
                v = cfg.eval3(node.ast.test, dict(a2), x)
                if v is not None and v != lab:
                    continue
                lits = cfg._lits(node.ast.test, lab, x)
                if any((k, not vv) in a2 for k, vv in lits):
                    continue
                a2 = a2 | frozenset(lits)
            if feasible:
                a2 = cfg.propagate(s, a2)
            if s in seen and s not in stops:
                # a loop header may be re-entered once from its own body, and is then left through its exit edge only
                sn = cfg.nodes[s]
                is_hdr = sn.kind == "for" or (sn.kind == "test" and isinstance(sn.ast, ast.While))
                if not (loop_once and is_hdr and sum(1 for p_, _ in path if p_ == s) == 1 and x != s):
                    continue
            stack.append((s, path + [(x, lab)], seen | {x}, a2))
    return out


class PathEval:
    """Evaluate statements along one path.  ``env`` maps variable names *and* canonical texts of attribute /
    subscript stores (e.g. ``state.mean``, ``training_steps[task_id]``) to Polys."""

    def __init__(self, nf: NF, cfg: CFG, mi, qual: str = "", env: dict | None = None, self_class=None):
        self.nf, self.cfg, self.mi, self.qual = nf, cfg, mi, qual
        self.env = dict(env or {})
        self.store = {}
        self.self_class = self_class
        self.log = []  # (node id, target text, Poly)
        self.appended = []  # (node id, container location, appended value) for .append on attribute / subscript containers
        self.effects = []  # (node id, base canon, index canon evaluated in the current state, Poly) for subscript stores

    def scope(self) -> Scope:
        sc = Scope(None, self.mi, self.env, self.qual, self_class=self.self_class)
        sc.store = self.store
        return sc

    def ev(self, e: ast.AST) -> Poly:
        return self.nf.poly(e, self.scope(), None)

    def _assign_target(self, t, val: Poly, nid):
        if isinstance(t, ast.Name):
            self.env[t.id] = val
            self.log.append((nid, t.id, val))
        elif isinstance(t, (ast.Tuple, ast.List)):
            stars = [i for i, el in enumerate(t.elts) if isinstance(el, ast.Starred)]
            if stars:
                # `a, *rest, z = value`: the starred name takes the list of the remaining components; positions after it count from the end.
                # With a value whose components are not known the starred name (and what follows it) is an unread value, never component k.
                k, n = stars[0], len(t.elts)
                m = len(val.elems) if val.elems is not None else None
                for i, el in enumerate(t.elts):
                    if i < k:
                        self._assign_target(el, self.nf._project(val, (i,)), nid)
                    elif m is not None and m >= n - 1:
                        if i == k:
                            rest = list(val.elems[k:m - (n - 1 - k)])
                            pv = Poly.atom("(" + ", ".join(x.canon() for x in rest) + ")")
                            pv.elems = rest
                            self._assign_target(el.value, pv, nid)
                        else:
                            self._assign_target(el, val.elems[m - (n - i)], nid)
                    else:
                        tgt = el.value if isinstance(el, ast.Starred) else el
                        self._assign_target(tgt, Poly.atom(f"φ(starred:{ast.unparse(tgt)[:30]}@{nid})"), nid)
                return
            for i, el in enumerate(t.elts):
                self._assign_target(el, self.nf._project(val, (i,)), nid)
        elif isinstance(t, (ast.Attribute, ast.Subscript)):
            key = self.target_key(t)
            if isinstance(t, ast.Subscript):
                # the location in terms of the *entry state* (index evaluated through the store), for effect summaries
                try:
                    base_v = self.ev(t.value).canon()
                    idx_v, _ = self.nf._slice(t.slice, self.scope(), None, 0)
                    self.effects.append((nid, base_v, idx_v, val))
                except Exception:
                    self.effects.append((nid, key, None, val))
            self.store[key] = val
            self.log.append((nid, key, val))
        elif isinstance(t, ast.Starred):
            self._assign_target(t.value, val, nid)

    def target_key(self, t) -> str:
        """Canonical text of an attribute / subscript location in the current environment (raw, not via store)."""
        sc = self.scope()
        saved, sc.store = sc.store, {}
        try:
            if isinstance(t, ast.Attribute):
                base = self.nf.poly(t.value, sc, None)
                return f"{base.canon()}.{t.attr}"
            base = self.nf.poly(t.value, sc, None)
            idx, _ = self.nf._slice(t.slice, sc, None, 0)
            return f"{base.canon()}[{idx}]"
        finally:
            sc.store = saved

    def step(self, nid: int, label=None):
        n = self.cfg.nodes[nid]
        s = n.ast
        if n.kind in ("entry", "exit") or s is None:
            return
        if n.kind == "stmt":
            if isinstance(s, ast.Assign):
                v = self.ev(s.value)
                for t in s.targets:
                    self._assign_target(t, v, nid)
            elif isinstance(s, ast.AnnAssign) and s.value is not None:
                self._assign_target(s.target, self.ev(s.value), nid)
            elif isinstance(s, ast.AugAssign):
                cur = self.ev(ast.copy_location(_as_load(s.target), s.target))
                v = self.nf._binop_polys(cur, self.ev(s.value), s.op)
                self._assign_target(s.target, v, nid)
            elif isinstance(s, ast.Expr):
                c = s.value
                logged = self.ev(s.value)
                # list growth through methods is an assignment in disguise: xs.append(v) == xs = xs + [v], xs.extend(it) == xs = xs + it
                if isinstance(c, ast.Call) and isinstance(c.func, ast.Attribute) and c.func.attr in ("append", "extend") and isinstance(c.func.value, ast.Name) and c.func.value.id in self.env and len(c.args) == 1 and not c.keywords:
                    cur = self.env[c.func.value.id]
                    add = self.ev(ast.List(elts=[c.args[0]], ctx=ast.Load())) if c.func.attr == "append" else self.ev(c.args[0])
                    self.env[c.func.value.id] = self.nf._binop_polys(cur, add, ast.Add())
                    if cur.single_atom() is not None and c.func.attr == "append" and (cur.single_atom().startswith("self.") or "." in cur.single_atom().split("[")[0]):
                        # the local is an alias of a container held in an attribute (ep = self.episodes[-1]; ep.append(v)): same effect
                        self.appended.append((nid, cur.single_atom(), self.ev(c.args[0])))
                elif isinstance(c, ast.Call) and isinstance(c.func, ast.Attribute) and c.func.attr in ("append", "extend") and isinstance(c.func.value, (ast.Attribute, ast.Subscript)) and len(c.args) == 1 and not c.keywords:
                    # the same for containers held in attributes / dict entries: self.xs[key].append(v)
                    key = self.target_key(c.func.value)
                    cur = self.store.get(key)
                    if cur is None:
                        cur = self.ev(c.func.value)
                    add = self.ev(ast.List(elts=[c.args[0]], ctx=ast.Load())) if c.func.attr == "append" else self.ev(c.args[0])
                    self.store[key] = self.nf._binop_polys(cur, add, ast.Add())
                    self.appended.append((nid, key, self.ev(c.args[0])))
                # calls for effect: record (rules may inspect the log)
                self.log.append((nid, "<expr>", logged))
        elif n.kind == "for" and label is True:
            it = self.ev(s.iter)
            self._assign_target(s.target, Poly.atom(f"iter({it.canon()})", it.deps, frozenset()), nid)
        elif n.kind == "with":
            for item in s.items:
                if item.optional_vars is not None:
                    self._assign_target(item.optional_vars, self.ev(item.context_expr), nid)

    def run(self, path):
        for nid, lab in path:
            self.step(nid, lab)
        return self


def _as_load(t):
    import copy
    t2 = clone(t)
    for x in ast.walk(t2):
        if hasattr(x, "ctx"):
            x.ctx = ast.Load()
    return t2
