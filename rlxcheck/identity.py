"""Object identity of module-valued expressions inside one function (aliases, clones, constructor fields)."""
from __future__ import annotations

import ast

from .cfg import CFG
from .repo import Repo, positional_params, bind_call


class Ident:
    """Canonical identities: two expressions with the same identity denote the same module object;
    different identities built only from ('param', ..), ('clone', ..), ('obj', ..) are distinct objects
    (parameters are assumed distinct, ``nnx.clone`` and constructors return fresh objects)."""

    def __init__(self, repo: Repo):
        self.repo = repo
        self._fields = {}

    def class_fields(self, cls_qual: str) -> dict:
        """field name -> __init__ parameter name for `self.f = param` assignments."""
        if cls_qual in self._fields:
            return self._fields[cls_qual]
        out = {}
        m = self.repo.method(cls_qual, "__init__")
        if m:
            fn = m[1]
            params = set(positional_params(fn))
            for st in ast.walk(fn):
                if isinstance(st, ast.Assign) and len(st.targets) == 1:
                    t = st.targets[0]
                    if isinstance(t, ast.Attribute) and isinstance(t.value, ast.Name) and t.value.id == "self" and isinstance(st.value, ast.Name) and st.value.id in params:
                        out[t.attr] = st.value.id
            out["__init__"] = fn
        else:
            # a record class (class-based NamedTuple / dataclass): the annotated fields are the constructor's parameters, in order
            try:
                _m2, nd = self.repo.lookup(cls_qual)
            except Exception:
                nd = None
            if isinstance(nd, ast.ClassDef):
                is_record = any((isinstance(b, ast.Name) and b.id == "NamedTuple") or (isinstance(b, ast.Attribute) and b.attr == "NamedTuple") for b in nd.bases) \
                    or any("dataclass" in ast.unparse(d) for d in nd.decorator_list)
                names = [(st.target.id, st.value is not None) for st in nd.body if isinstance(st, ast.AnnAssign) and isinstance(st.target, ast.Name)]
                if is_record and names:
                    src = "def __init__(self, " + ", ".join(n + ("=None" if has_default else "") for n, has_default in names) + "): pass"
                    try:
                        fn = ast.parse(src).body[0]
                    except SyntaxError:
                        fn = None
                    if fn is not None:
                        for n, _d in names:
                            out[n] = n
                        out["__init__"] = fn
        self._fields[cls_qual] = out
        return out

    def of(self, e: ast.AST, mi, cfg: CFG, at: int, qual: str = "", depth: int = 0):
        if depth > 12:
            return ("deep",)
        if isinstance(e, ast.Name):
            defs = cfg.defs_of(at, e.id)
            if not defs:
                return ("global", e.id)
            kinds = sorted({d.kind for d in defs})
            if kinds == ["param"]:
                return ("param", qual, e.id)
            non_param = [d for d in defs if d.kind != "param"]
            if len(defs) > len(non_param):
                # `if t is None: t = nnx.clone(o)`: parameter or fresh clone - in both cases an object of its own
                if all(d.kind == "assign" and self._is_clone(d.value, mi) for d in non_param):
                    return ("param|clone", qual, e.id)
                return ("phi", qual, e.id, tuple(sorted(d.node for d in defs)))
            if len(non_param) == 1:
                d = non_param[0]
                if d.kind == "assign":
                    return self._of_value(d.value, mi, cfg, d.node, qual, e.id, depth)
                if d.kind == "unpack":
                    # `a, b = (x, y)`: project through tuple displays (also produced by helper expansion)
                    v = _project_expr(d.value, d.path or ())
                    if v is not None and d.path:
                        return self._of_value(v, mi, cfg, d.node, qual, e.id, depth + 1)
                    return ("unpack", qual, d.node, d.path)
                return (d.kind, qual, e.id, d.node)
            vals = {self._of_value(d.value, mi, cfg, d.node, qual, e.id, depth + 1) if d.kind == "assign" else (d.kind, d.node) for d in non_param}
            if len(vals) == 1:
                return vals.pop()
            if all(v[0] in ("param", "clone", "param|clone", "obj", "alt", "attr") for v in vals):
                # the variable holds one of several known objects (e.g. a helper's `t = param; if t is None: t = clone(o)`)
                return _alt(vals)
            return ("phi", qual, e.id, tuple(sorted(d.node for d in defs)))
        if isinstance(e, ast.Attribute):
            base = self.of(e.value, mi, cfg, at, qual, depth + 1)
            if base[0] == "alt":
                # the object is one of several known ones: its field is the field of one of them
                return _alt({self._field_of(m, e.attr, mi, cfg, qual, depth) for m in base[1]})
            return self._field_of(base, e.attr, mi, cfg, qual, depth)
        if isinstance(e, ast.Call):
            return self._of_value(e, mi, cfg, at, qual, "<expr>", depth)
        return ("expr", ast.unparse(e)[:40])

    def _field_of(self, base, attr, mi, cfg, qual, depth):
        if base[0] == "obj":
            cls_qual, node_id, call = base[1], base[2], base[3]
            fields = self.class_fields(cls_qual)
            if attr in fields:
                init = fields["__init__"]
                b = bind_call(init, call, skip_self=True)
                arg = b.get(fields[attr])
                if arg is not None and not isinstance(arg, list):
                    return self.of(arg, mi, cfg, node_id, qual, depth + 1)
        return ("attr", base, attr)

    def leaves(self, ident, mi, cfg, qual, depth=0):
        """Identities of the sub-modules an object is built from (constructor fields, recursively); {ident} for plain objects."""
        if depth > 6 or not isinstance(ident, tuple):
            return {ident}
        if ident[0] == "obj":
            cls_qual, node_id, call = ident[1], ident[2], ident[3]
            fields = self.class_fields(cls_qual)
            init = fields.get("__init__")
            out = set()
            if init is not None:
                b = bind_call(init, call, skip_self=True)
                for f, pname in fields.items():
                    if f == "__init__":
                        continue
                    arg = b.get(pname)
                    if arg is not None and not isinstance(arg, list):
                        out |= self.leaves(self.of(arg, mi, cfg, node_id, qual), mi, cfg, qual, depth + 1)
            return out or {ident}
        return {ident}

    def _is_clone(self, v, mi) -> bool:
        return isinstance(v, ast.Call) and self.repo.resolve_expr(mi, v.func) in ("flax.nnx.clone", "copy.deepcopy") if isinstance(getattr(v, "func", None), (ast.Name, ast.Attribute)) else False

    def _of_value(self, v, mi, cfg, node, qual, name, depth):
        if isinstance(v, (ast.Name, ast.Attribute)):
            return self.of(v, mi, cfg, node, qual, depth + 1)
        if isinstance(v, ast.IfExp):
            # `clone(o) if t is None else t`: one of the two objects; equal arms collapse
            a = self._of_value(v.body, mi, cfg, node, qual, name, depth + 1)
            b = self._of_value(v.orelse, mi, cfg, node, qual, name, depth + 1)
            if a == b:
                return a
            return _alt({a, b})
        if isinstance(v, ast.Call) and isinstance(v.func, (ast.Name, ast.Attribute)):
            fq = self.repo.resolve_expr(mi, v.func)
            if fq in ("flax.nnx.clone", "copy.deepcopy"):
                # two clone calls in one statement are two objects: the position of the call is part of the identity
                # (helper expansion may give inlined calls the position of the call they replace: what is cloned is part of the identity too)
                return ("clone", qual, node, getattr(v, "lineno", 0), getattr(v, "col_offset", 0), ast.unparse(v.args[0])[:60] if v.args else "")
            if fq and fq.startswith(self.repo.PKG + "."):
                try:
                    m2, nd = self.repo.lookup(fq)
                    if isinstance(nd, ast.ClassDef):
                        return ("obj", f"{m2.name}.{nd.name}", node, v)
                except Exception:
                    pass
            return ("call", qual, node)
        return ("value", qual, node)


def _alt(vals):
    """One of several objects: nested alternatives are flattened; a single member is the member itself."""
    flat = set()
    for v in vals:
        if isinstance(v, tuple) and v and v[0] == "alt":
            flat |= set(v[1])
        else:
            flat.add(v)
    if len(flat) == 1:
        return next(iter(flat))
    return ("alt", tuple(sorted(flat, key=str)))


def alternatives(ident):
    return list(ident[1]) if isinstance(ident, tuple) and ident and ident[0] == "alt" else [ident]


def _project_expr(v, path):
    """Element of a tuple-valued expression at ``path`` (through tuple displays and conditional expressions); None if not syntactic."""
    if not path:
        return v
    if isinstance(v, (ast.Tuple, ast.List)):
        i = path[0]
        if isinstance(i, int) and -len(v.elts) <= i < len(v.elts) and not any(isinstance(x, ast.Starred) for x in v.elts):
            return _project_expr(v.elts[i], path[1:])
        return None
    if isinstance(v, ast.IfExp):
        a, b = _project_expr(v.body, path), _project_expr(v.orelse, path)
        if a is None or b is None:
            return None
        return ast.copy_location(ast.IfExp(test=v.test, body=a, orelse=b), v)
    return None


def has_base(ident, base) -> bool:
    """True if ``ident`` is ``base`` or an attribute (sub-module) of it."""
    if isinstance(ident, tuple) and ident and ident[0] == "alt":
        return any(has_base(m, base) for m in ident[1])
    if isinstance(base, tuple) and base and base[0] == "alt":
        return any(has_base(ident, m) for m in base[1])
    if ident == base:
        return True
    if isinstance(ident, tuple) and ident and ident[0] == "attr":
        return has_base(ident[1], base)
    return False


def show(ident) -> str:
    if not isinstance(ident, tuple):
        return str(ident)
    k = ident[0]
    if k in ("param", "param|clone"):
        return f"{k}:{ident[2]}"
    if k == "clone":
        return f"clone@{ident[2]}"
    if k == "obj":
        return f"{ident[1].rsplit('.', 1)[1]}@{ident[2]}"
    if k == "attr":
        return f"{show(ident[1])}.{ident[2]}"
    if k == "alt":
        return "|".join(show(m) for m in ident[1])
    return ":".join(str(x) for x in ident[:3])
