"""E3: polynomial normal forms over opaque atoms, with def-use and callee inlining.

A ``Poly`` is a finite map  monomial -> Fraction  where a monomial is a sorted tuple of (atom, integer exponent).
Atoms are canonical strings of sub-expressions that are not ring operations (calls, subscripts, attributes,
parameters).  Two expressions are *the same formula* iff their Polys are equal.  No solver, no search: this is
global value numbering with commutative / associative / distributive normalisation.

Every Poly also carries

* ``deps``  - the leaf atoms (parameters, role atoms) it depends on in any way,
* ``gdeps`` - the leaf atoms it depends on *differentiably*, i.e. not only through ``stop_gradient``,
  ``argmax``, comparisons or integer-valued operations (used by the gradient-discipline rules).
"""
from __future__ import annotations

import ast
from fractions import Fraction

from .cfg import CFG, Def, attr_chain
from .repo import Repo, ModuleInfo, positional_params

# ---------------------------------------------------------------------------------------------


class Poly:
    __slots__ = ("terms", "deps", "gdeps", "elems")

    def __init__(self, terms=None, deps=frozenset(), gdeps=frozenset(), elems=None):
        self.terms = {m: c for m, c in (terms or {}).items() if c != 0}
        self.deps = frozenset(deps)
        self.gdeps = frozenset(gdeps)
        self.elems = elems  # list[Poly] when the value is a tuple literal

    # constructors
    @staticmethod
    def const(c):
        return Poly({(): Fraction(c)})

    @staticmethod
    def atom(name: str, deps=frozenset(), gdeps=frozenset()):
        return Poly({((name, 1),): Fraction(1)}, deps, gdeps)

    # predicates
    def is_const(self):
        return all(m == () for m in self.terms)

    def const_value(self):
        return self.terms.get((), Fraction(0)) if self.is_const() else None

    def is_zero(self):
        return not self.terms

    def single_atom(self):
        """Name of the atom if the poly is exactly 1*atom, else None."""
        if len(self.terms) == 1:
            (m, c), = self.terms.items()
            if c == 1 and len(m) == 1 and m[0][1] == 1:
                return m[0][0]
        return None

    def atoms(self):
        out = set()
        for m in self.terms:
            for a, _ in m:
                out.add(a)
        return out

    def subst(self, mapping: dict):
        """Replace atoms (by name) with polynomials."""
        if not any(a in mapping for a in self.atoms()):
            return self
        out = Poly({}, self.deps, self.gdeps)
        for m, c in self.terms.items():
            term = Poly.const(c)
            for a, k in m:
                base = mapping.get(a)
                if base is None:
                    term = term * Poly({((a, k),): Fraction(1)})
                else:
                    term = term * base.pow(k)
            out = out + term
        out.deps, out.gdeps = self.deps, self.gdeps
        return out

    # arithmetic
    def _meta(self, o):
        return self.deps | o.deps, self.gdeps | o.gdeps

    def __add__(self, o):
        t = dict(self.terms)
        for m, c in o.terms.items():
            t[m] = t.get(m, 0) + c
        d, g = self._meta(o)
        return Poly(t, d, g)

    def __neg__(self):
        return Poly({m: -c for m, c in self.terms.items()}, self.deps, self.gdeps)

    def __sub__(self, o):
        return self + (-o)

    def scale(self, c):
        c = Fraction(c)
        return Poly({m: v * c for m, v in self.terms.items()}, self.deps, self.gdeps)

    def __mul__(self, o):
        t = {}
        for m1, c1 in self.terms.items():
            for m2, c2 in o.terms.items():
                e = dict(m1)
                for a, k in m2:
                    e[a] = e.get(a, 0) + k
                m = tuple(sorted((a, k) for a, k in e.items() if k != 0))
                t[m] = t.get(m, 0) + c1 * c2
        d, g = self._meta(o)
        return Poly(t, d, g)

    def pow(self, n: int):
        if n == 0:
            return Poly.const(1)
        if n < 0:
            return self.inv().pow(-n)
        r = Poly.const(1)
        for _ in range(n):
            r = r * self
        r.deps, r.gdeps = self.deps, self.gdeps
        return r

    def inv(self):
        if len(self.terms) == 1:
            (m, c), = self.terms.items()
            return Poly({tuple(sorted((a, -k) for a, k in m)): 1 / c}, self.deps, self.gdeps)
        if not self.terms:
            return Poly.atom("inv(0)")
        return Poly({((f"({self.canon()})", -1),): Fraction(1)}, self.deps, self.gdeps)

    def __eq__(self, o):
        return isinstance(o, Poly) and self.terms == o.terms

    def __hash__(self):
        return hash(self.canon())

    def canon(self) -> str:
        if self.elems is not None:
            return "(" + ", ".join(e.canon() for e in self.elems) + ")"
        if not self.terms:
            return "0"
        parts = []
        for m, c in sorted(self.terms.items(), key=lambda kv: (len(kv[0]), kv[0])):
            mono = "*".join(a if k == 1 else f"{a}^{k}" for a, k in m)
            if not m:
                parts.append(_fr(c))
            elif c == 1:
                parts.append(mono)
            elif c == -1:
                parts.append("-" + mono)
            else:
                parts.append(f"{_fr(c)}*{mono}")
        return " + ".join(parts).replace("+ -", "- ")

    __repr__ = canon

    def with_meta(self, deps, gdeps):
        return Poly(self.terms, deps, gdeps, self.elems)

    def degree_split(self, atom: str):
        """Split by exponent of ``atom``: returns {k: Poly with atom removed}."""
        out = {}
        for m, c in self.terms.items():
            k = 0
            rest = []
            for a, e in m:
                if a == atom:
                    k = e
                else:
                    rest.append((a, e))
            p = out.setdefault(k, Poly({}, self.deps, self.gdeps))
            mm = tuple(rest)
            p.terms[mm] = p.terms.get(mm, 0) + c
        for p in out.values():
            p.terms = {m: c for m, c in p.terms.items() if c != 0}
        return {k: p for k, p in out.items() if p.terms}

    def subst_atom(self, atom: str, repl: "Poly"):
        out = Poly({})
        for m, c in self.terms.items():
            term = Poly({(): c})
            for a, e in m:
                if a == atom:
                    term = term * repl.pow(e)
                else:
                    term = term * Poly({((a, e),): Fraction(1)})
            out = out + term
        return out.with_meta(self.deps | repl.deps, self.gdeps | repl.gdeps)


def _fr(c: Fraction) -> str:
    return str(c.numerator) if c.denominator == 1 else f"{c.numerator}/{c.denominator}"


# ---------------------------------------------------------------------------------------------
# Library operation table: resolved dotted name -> short op
_LIB_PREFIXES = ("jax.numpy.", "numpy.", "jax.lax.", "jax.nn.", "optax.", "jax.", "flax.nnx.", "chex.", "jax.scipy.special.",
                 "jax.scipy.", "jax.tree_util.", "jax.tree.", "jax.random.", "math.", "optax.losses.", "builtins.")

# value-transparent wrappers (value identity; stop_gradient additionally clears gdeps)
STRIP = {"stop_gradient", "asarray", "array", "squeeze", "astype", "float", "int", "copy", "flatten", "ravel", "float32",
         "float64", "int32", "device_put", "item"}
# results are not differentiable functions of their inputs
NONDIFF = {"argmax", "argmin", "argsort", "top_k", "floor", "ceil", "round", "sign", "greater", "less", "equal",
           "searchsorted", "nonzero", "arange", "shape", "len", "zeros_like", "ones_like", "isfinite", "isnan"}
LINEAR = {"mean", "sum"}
ELEMENTWISE_UNARY = {"tanh", "exp", "log", "log1p", "sqrt", "abs", "absolute", "square", "negative", "sigmoid", "softplus", "relu", "sin", "cos", "sign", "floor", "ceil", "round", "asarray", "array", "copy"}
COMMUTATIVE = {"minimum", "maximum", "add", "multiply", "logical_and", "logical_or"}


# positional parameter names of library functions whose arguments the repository passes both ways
LIB_SIG = {
    "normal": ["key", "shape", "dtype"], "uniform": ["key", "shape", "dtype", "minval", "maxval"], "split": ["key", "num"],
    "randint": ["key", "shape", "minval", "maxval"], "choice": ["key", "a", "shape", "replace", "p"],
    "permutation": ["key", "x"], "linspace": ["start", "stop", "num"], "broadcast_to": ["array", "shape"],
}


class Scope:
    """Name-resolution context for one function body."""

    def __init__(self, cfg: CFG | None, mi: ModuleInfo, env: dict | None = None, qual: str = "", self_class: str | None = None):
        self.cfg = cfg
        self.mi = mi
        self.env = dict(env or {})  # name -> Poly (binding of parameters / role atoms)
        self.qual = qual
        self.self_class = self_class
        self.attr_alias: dict = {}  # (base atom, attr) -> Poly
        self.store: dict = {}  # canonical text of attribute / subscript locations -> Poly (per-path evaluation)
        self.opaque_names: set = set()  # local names that are not to be inlined (kept as atoms)
        self.inline_self_attrs: bool = True  # False: `self.x` reads stay atoms (locals are still resolved): "as stored" identity


class NF:
    def __init__(self, repo: Repo, *, inline_depth: int = 3, strip=STRIP, inline_calls: bool = True,
                 no_inline: set | None = None, field_order: list | None = None):
        self.repo = repo
        self.inline_depth = inline_depth
        self.strip = set(strip)
        self.keep_layout = set()
        self.inline_calls = inline_calls
        self.no_inline = set(no_inline or ())
        self.field_order = field_order  # namedtuple field names of a sampled batch, for `.reward` -> [2]
        self._cfgs: dict = {}
        self._guard: list = []
        self.inlined: list = []  # (caller qual, callee qual) records, for evidence
        self.unresolved: list = []
        self.meta: dict = {}  # atom text -> {"deps", "gdeps", "fn", "args": [Poly], "kws": {name: Poly}}
        self.expand_squares = True
        self.track_sg = False  # True: atoms under stop_gradient are renamed "⊥atom" (no gradient dependence); see freeze()

    # -- helpers -----------------------------------------------------------------------------
    def _reg(self, p: Poly, fn: str = "", args=None, kws=None) -> Poly:
        a = p.single_atom()
        if a is not None and a not in self.meta:
            self.meta[a] = {"deps": p.deps, "gdeps": p.gdeps, "fn": fn, "args": list(args or []), "kws": dict(kws or {})}
        return p

    def atom_gdeps(self, atom: str) -> frozenset:
        m = self.meta.get(atom)
        if m is not None:
            return m["gdeps"]
        return frozenset([atom]) if atom.isidentifier() else frozenset()

    def atom_deps(self, atom: str) -> frozenset:
        m = self.meta.get(atom)
        if m is not None:
            return m["deps"]
        return frozenset([atom]) if atom.isidentifier() else frozenset()

    def freeze(self, p: Poly) -> Poly:
        """Value-preserving copy of ``p`` whose atoms carry no gradient dependence (what stop_gradient does)."""
        if p.elems is not None:
            q = Poly(dict(p.terms), p.deps, frozenset(), [self.freeze(e) for e in p.elems])
            return q
        t = {}
        for mono, c in p.terms.items():
            nm = []
            for a, e in mono:
                fa = a if a.startswith("⊥") else "⊥" + a
                if fa not in self.meta:
                    m = self.meta.get(a)
                    self.meta[fa] = {"deps": (m["deps"] if m else (frozenset([a]) if a.isidentifier() else frozenset())), "gdeps": frozenset(),
                                     "fn": m["fn"] if m else "", "args": m["args"] if m else [], "kws": m["kws"] if m else {}}
                nm.append((fa, e))
            k = tuple(sorted(nm))
            t[k] = t.get(k, 0) + c
        return Poly(t, p.deps, frozenset())

    def unfreeze(self, p: Poly) -> Poly:
        t = {}
        for mono, c in p.terms.items():
            k = tuple(sorted((a[1:] if a.startswith("⊥") else a, e) for a, e in mono))
            t[k] = t.get(k, 0) + c
        return Poly(t, p.deps, p.gdeps)

    def deps_of(self, p: Poly) -> frozenset:
        out = frozenset()
        for a in p.atoms():
            out |= self.atom_deps(a)
        return out

    def gdeps_of(self, p: Poly) -> frozenset:
        out = frozenset()
        for a in p.atoms():
            out |= self.atom_gdeps(a)
        return out

    def term_gdeps(self, mono) -> frozenset:
        out = frozenset()
        for a, _ in mono:
            out |= self.atom_gdeps(a)
        return out

    def cfg_of(self, fn) -> CFG:
        if id(fn) not in self._cfgs:
            self._cfgs[id(fn)] = CFG(fn)
        return self._cfgs[id(fn)]

    def scope_for(self, qual: str, env: dict | None = None) -> Scope:
        fn = self.repo.func(qual)
        return Scope(self.cfg_of(fn), fn._module, env, qual)

    def libop(self, mi: ModuleInfo, func: ast.AST) -> str | None:
        dotted = self.repo.resolve_expr(mi, func)
        if dotted is None:
            return None
        for p in _LIB_PREFIXES:
            if dotted.startswith(p):
                return dotted[len(p):]
        return None

    # -- entry points ------------------------------------------------------------------------
    def poly(self, e: ast.AST, sc: Scope, at: int | None = None, depth: int = 0) -> Poly:
        m = getattr(self, "_e_" + type(e).__name__, None)
        if m is None:
            return self._opaque(e, sc, at, depth)
        return m(e, sc, at, depth)

    def return_poly(self, qual: str, env: dict | None = None, index: int | None = None) -> Poly:
        """Normal form of the (single) returned expression of repo function ``qual``."""
        sc = self.scope_for(qual, env)
        rets = [n for n in sc.cfg.nodes if isinstance(n.ast, ast.Return) and n.kind == "stmt" and n.ast.value is not None]
        if len(rets) != 1:
            raise ValueError(f"{qual}: {len(rets)} return statements")
        p = self.poly(rets[0].ast.value, sc, rets[0].id)
        if index is not None:
            if p.elems is None:
                raise ValueError(f"{qual}: return value is not a tuple literal")
            return p.elems[index]
        return p

    # -- expression kinds ---------------------------------------------------------------------
    def _e_Constant(self, e, sc, at, depth):
        v = e.value
        if isinstance(v, bool):
            return Poly.const(int(v))  # False == 0, True == 1 in arithmetic (`(1 - terminated)` with a False default)
        if isinstance(v, int):
            return Poly.const(v)
        if isinstance(v, float):
            return Poly.const(Fraction(str(v)))
        return Poly.atom(repr(v))

    def _e_UnaryOp(self, e, sc, at, depth):
        p = self.poly(e.operand, sc, at, depth)
        if isinstance(e.op, ast.USub):
            return -p
        if isinstance(e.op, ast.UAdd):
            return p
        if isinstance(e.op, ast.Not):
            return Poly.atom(f"not({p.canon()})", p.deps)
        return Poly.atom(f"inv~({p.canon()})", p.deps)

    def _e_BinOp(self, e, sc, at, depth):
        a = self.poly(e.left, sc, at, depth)
        b = self.poly(e.right, sc, at, depth)
        op = e.op
        if isinstance(op, ast.Add):
            return a + b
        if isinstance(op, ast.Sub):
            return a - b
        if isinstance(op, ast.Mult):
            return a * b
        if isinstance(op, ast.Div):
            return a * b.inv()
        if isinstance(op, ast.Pow):
            return self._pow(a, b)
        name = type(op).__name__.lower()
        d, g = a._meta(b)
        if isinstance(op, (ast.Mod, ast.FloorDiv)):
            g = frozenset()
        return Poly.atom(f"{name}({a.canon()}, {b.canon()})", d, g)

    def square(self, a: Poly) -> Poly:
        """a**2; with ``expand_squares`` off a multi-term poly is kept as the atom sq(<sign-normalised a>)."""
        if self.expand_squares or len(a.terms) <= 1:
            return a.pow(2)
        # sign normalisation: sq(x) == sq(-x)
        lead = sorted(a.terms.items(), key=lambda kv: (len(kv[0]), kv[0]))[0][1]
        b = a if lead > 0 else -a
        name = f"sq({b.canon()})"
        self.meta[name] = {"deps": b.deps, "gdeps": b.gdeps, "fn": "sq", "args": [b], "kws": {}}
        return Poly.atom(name, b.deps, b.gdeps)

    def _pow(self, a: Poly, b: Poly) -> Poly:
        c = b.const_value()
        if c is not None and c == 2:
            return self.square(a)
        if c is not None and c.denominator == 1 and -6 <= c <= 6:
            return a.pow(int(c))
        d, g = a._meta(b)
        return self._reg(Poly.atom(f"pow({a.canon()}, {b.canon()})", d, g), "pow", [a, b])

    def _e_Name(self, e, sc, at, depth):
        return self.name(e.id, sc, at, depth)

    def name(self, name: str, sc: Scope, at: int | None, depth: int = 0) -> Poly:
        if name in sc.opaque_names:
            return Poly.atom(name, {name}, {name})
        cfg = sc.cfg
        defs = cfg.defs_of(at, name) if (cfg is not None and at is not None) else []
        if not defs:
            if name in sc.env:
                return sc.env[name]
            return self._global(name, sc)
        if len(defs) == 1:
            d = defs[0]
            key = (id(cfg), d.node, d.name)
            if key in self._guard:
                return Poly.atom(f"φ({name})", {name}, {name})
            self._guard.append(key)
            try:
                return self._def_value(d, sc, depth)
            finally:
                self._guard.pop()
        # several reaching definitions: equal values collapse, otherwise an opaque φ atom
        vals = []
        for d in defs:
            key = (id(cfg), d.node, d.name)
            if key in self._guard:
                vals.append(None)
                continue
            self._guard.append(key)
            try:
                vals.append(self._def_value(d, sc, depth))
            finally:
                self._guard.pop()
        good = [v for v in vals if v is not None]
        if good and len(good) == len(vals) and all(v == good[0] and v.elems is None for v in good):
            return good[0]
        deps = frozenset().union(*[v.deps for v in good]) if good else frozenset()
        gdeps = frozenset().union(*[v.gdeps for v in good]) if good else frozenset()
        tag = ",".join(sorted(str(d.node) for d in defs))
        return Poly.atom(f"φ({name}@{tag})", deps | {name}, gdeps | {name})

    def _def_value(self, d: Def, sc: Scope, depth: int) -> Poly:
        if d.kind == "param":
            if d.name in sc.env:
                return sc.env[d.name]
            return Poly.atom(d.name, {d.name}, {d.name})
        if d.kind in ("assign", "walrus"):
            return self.poly(d.value, sc, d.node, depth)
        if d.kind == "unpack":
            p = self.poly(d.value, sc, d.node, depth)
            return self._project(p, d.path)
        if d.kind == "aug":
            s = d.value  # the AugAssign statement
            prev = self.name(d.name, sc, d.node, depth) if isinstance(s.target, ast.Name) else self.poly(s.target, sc, d.node, depth)
            rhs = self.poly(s.value, sc, d.node, depth)
            fake = ast.BinOp(left=ast.Constant(0), op=s.op, right=ast.Constant(0))
            return self._binop_polys(prev, rhs, fake.op)
        if d.kind == "for":
            p = self.poly(d.value, sc, d.node, depth)
            q = Poly.atom(f"iter({p.canon()})", p.deps, frozenset())
            return self._project(q, d.path) if d.path else q
        if d.kind == "with":
            return self.poly(d.value, sc, d.node, depth)
        if d.kind in ("funcdef", "classdef"):
            return Poly.atom(f"{sc.qual}.<locals>.{d.name}")
        return Poly.atom(f"{d.kind}:{d.name}")

    def _binop_polys(self, a, b, op):
        if isinstance(op, ast.Add):
            return a + b
        if isinstance(op, ast.Sub):
            return a - b
        if isinstance(op, ast.Mult):
            return a * b
        if isinstance(op, ast.Div):
            return a * b.inv()
        if isinstance(op, ast.Pow):
            return self._pow(a, b)
        d, g = a._meta(b)
        return Poly.atom(f"{type(op).__name__.lower()}({a.canon()}, {b.canon()})", d, g)

    def _project(self, p: Poly, path: tuple) -> Poly:
        import re as _re
        for i in path:
            if p.elems is not None and isinstance(i, int) and i < len(p.elems):
                p = p.elems[i]
                continue
            ms_ = self.meta.get(p.single_atom() or "", {})
            mm_ = _re.search(r"\[(\d*):(\d*)\]$", p.single_atom() or "")
            if isinstance(i, int) and i >= 0 and ms_.get("fn") == "subscript" and mm_ and ms_.get("args"):
                # (x[j:k])[i] == x[j + i] for constant bounds
                lo_ = int(mm_.group(1) or 0)
                if not mm_.group(2) or lo_ + i < int(mm_.group(2)):
                    p = self._project(ms_["args"][0], (lo_ + i,))
                    continue
            if True:
                base = p.single_atom()
                name = f"{p.canon()}[{i}]"
                if base is not None and base.isidentifier():
                    # projection of a plain (tuple-valued) parameter: the component is a leaf of its own (role atom)
                    p = self._reg(Poly.atom(name, {name}, {name} if base in p.gdeps else frozenset()), "proj", [])
                else:
                    p = self._reg(Poly.atom(name, p.deps, p.gdeps), "proj", [p])
        return p

    def _global(self, name: str, sc: Scope) -> Poly:
        node = sc.mi.defs.get(name)
        if isinstance(node, (ast.Assign, ast.AnnAssign)) and isinstance(node.value, (ast.Constant, ast.UnaryOp, ast.BinOp)):
            try:
                return self.poly(node.value, Scope(None, sc.mi), None)
            except Exception:
                pass
        r = self.repo.resolve_name(sc.mi, name)
        return Poly.atom(r or name)

    def _e_Attribute(self, e, sc, at, depth):
        if isinstance(e.value, ast.Name) and e.value.id == "self" and sc.cfg is not None and at is not None and sc.inline_self_attrs:
            pseudo = f"self.{e.attr}"
            defs = sc.cfg.defs_of(at, pseudo)
            if len(defs) == 1 and defs[0].kind in ("assign", "aug", "unpack"):
                key = (id(sc.cfg), defs[0].node, pseudo)
                if key not in self._guard:
                    self._guard.append(key)
                    try:
                        return self._def_value(defs[0], sc, depth)
                    finally:
                        self._guard.pop()
        if e.attr in ("pi", "inf", "e", "newaxis") and isinstance(e.value, (ast.Name, ast.Attribute)):
            r = self.repo.resolve_expr(sc.mi, e)
            if r in ("numpy.pi", "jax.numpy.pi", "math.pi"):
                return Poly.atom("pi")
        base = self.poly(e.value, sc, at, depth)
        ba = base.single_atom()
        if sc.store and f"{base.canon()}.{e.attr}" in sc.store:
            return sc.store[f"{base.canon()}.{e.attr}"]
        if ba is not None and (ba, e.attr) in sc.attr_alias:
            return sc.attr_alias[(ba, e.attr)]
        if ba is not None and e.attr in self.meta.get(ba, {}).get("record", {}):
            return self.meta[ba]["record"][e.attr]
        if self.field_order and e.attr in self.field_order and ba is not None and not ba.endswith(")") and "." not in ba.split("[")[0].replace("rl_blox", ""):
            # namedtuple batch field -> positional projection (only for plain parameter-like bases named *batch*)
            if "batch" in ba.lower():
                i = self.field_order.index(e.attr)
                return self._project(base, (i,))
        if e.attr == "shape" and ba is not None:
            # the shape of an element-wise function of one array is the shape of that array
            m_ = self.meta.get(ba, {})
            if m_.get("fn", "").split(".")[-1] in ELEMENTWISE_UNARY and len(m_.get("args", [])) == 1 and not m_.get("kws"):
                inner = m_["args"][0]
                return self._reg(Poly.atom(f"{inner.canon()}.shape", inner.deps, frozenset()), "attr", [inner])
        if e.attr == "T":
            return self._reg(Poly.atom(f"T({base.canon()})", base.deps, base.gdeps), "T", [base])
        return self._reg(Poly.atom(f"{base.canon()}.{e.attr}", base.deps, base.gdeps if e.attr not in ("shape", "ndim", "dtype", "size") else frozenset()), "attr", [base])

    def _e_Subscript(self, e, sc, at, depth):
        # x[:k][i] == x[i] and x[j:][i] == x[j + i] for constant bounds (prefix / suffix of a tuple-like value)
        if isinstance(e.slice, ast.Constant) and isinstance(e.slice.value, int) and e.slice.value >= 0 and isinstance(e.value, ast.Subscript) and isinstance(e.value.slice, ast.Slice) \
                and e.value.slice.step is None:
            lo, hi = e.value.slice.lower, e.value.slice.upper
            lo_v = 0 if lo is None else (lo.value if isinstance(lo, ast.Constant) and isinstance(lo.value, int) and lo.value >= 0 else None)
            hi_v = None if hi is None else (hi.value if isinstance(hi, ast.Constant) and isinstance(hi.value, int) and hi.value >= 0 else -1)
            if lo_v is not None and hi_v != -1 and (hi_v is None or lo_v + e.slice.value < hi_v):
                return self._e_Subscript(ast.copy_location(ast.Subscript(value=e.value.value, slice=ast.Constant(value=lo_v + e.slice.value), ctx=ast.Load()), e), sc, at, depth)
        base = self.poly(e.value, sc, at, depth)
        if base.elems is not None and isinstance(e.slice, ast.Constant) and isinstance(e.slice.value, int):
            i = e.slice.value
            if -len(base.elems) <= i < len(base.elems):
                return base.elems[i]
        if sc.store:
            idx0, _ = self._slice(e.slice, sc, at, depth)
            if f"{base.canon()}[{idx0}]" in sc.store:
                return sc.store[f"{base.canon()}[{idx0}]"]
        if isinstance(e.slice, ast.Constant) and e.slice.value == 0 and (base.single_atom() or "").endswith(".shape"):
            # length of a freshly built 1-d array: linspace(a, b, n).shape[0] == n, arange(n).shape[0] == n, ones(n).shape[0] == n
            ms = self.meta.get(base.single_atom(), {})
            src = ms.get("args", [None])[0] if ms.get("fn") == "attr" else None
            mm = self.meta.get(src.single_atom() or "", {}) if src is not None else {}
            f_ = mm.get("fn", "").split(".")[-1]
            if f_ == "linspace" and len(mm.get("args", [])) >= 3:
                return mm["args"][2]
            if f_ == "linspace" and "num" in mm.get("kws", {}):
                return mm["kws"]["num"]
            if f_ in ("arange", "ones", "zeros", "empty") and len(mm.get("args", [])) == 1 and mm["args"][0].elems is None and not mm.get("kws"):
                return mm["args"][0]
        if isinstance(e.slice, ast.Constant) and isinstance(e.slice.value, int):
            return self._project(base, (e.slice.value,))
        idx, d = self._slice(e.slice, sc, at, depth)
        return self._reg(Poly.atom(f"{base.canon()}[{idx}]", base.deps | d, base.gdeps), "subscript", [base])

    def _slice(self, s, sc, at, depth):
        if isinstance(s, ast.Slice):
            parts, deps = [], frozenset()
            for x in (s.lower, s.upper, s.step):
                if x is None:
                    parts.append("")
                else:
                    p = self.poly(x, sc, at, depth)
                    parts.append(p.canon())
                    deps |= p.deps
            txt = ":".join(parts[:2]) + (":" + parts[2] if s.step is not None else "")
            return txt, deps
        if isinstance(s, ast.Tuple):
            parts, deps = [], frozenset()
            for x in s.elts:
                t, d = self._slice(x, sc, at, depth)
                parts.append(t)
                deps |= d
            return ", ".join(parts), deps
        p = self.poly(s, sc, at, depth)
        m_ = self.meta.get(p.single_atom() or "")
        if m_ and m_.get("fn") == "slice" and 1 <= len(m_.get("args", [])) <= 3 and not m_.get("kws"):
            # an explicit slice object indexes exactly like the slice syntax: x[slice(a, b)] == x[a:b]
            a_ = ["" if x.canon() == "None" else x.canon() for x in m_["args"]]
            lo, hi, st = ("", a_[0], None) if len(a_) == 1 else (a_[0], a_[1], a_[2] if len(a_) == 3 else None)
            return f"{lo}:{hi}" + (f":{st}" if st else ""), p.deps
        if p.elems is not None and len(p.elems) >= 2 and isinstance(s, ast.Name):
            # `idx = (s, a); table[idx]` indexes exactly like `table[s, a]`
            return ", ".join(x.canon() for x in p.elems), p.deps
        return p.canon(), p.deps

    def _e_Tuple(self, e, sc, at, depth):
        if any(isinstance(x, ast.Starred) for x in e.elts) and isinstance(e, ast.Tuple):
            # (a, *t, b) == (a,) + t + (b,): same canonical form as the concatenation
            total, seg = None, []

            def flush():
                nonlocal total, seg
                if seg:
                    p_ = self._e_Tuple(ast.Tuple(elts=seg, ctx=ast.Load()), sc, at, depth)
                    total = p_ if total is None else total + p_
                    seg = []
            for x in e.elts:
                if isinstance(x, ast.Starred):
                    flush()
                    p_ = self.poly(x.value, sc, at, depth)
                    total = p_ if total is None else total + p_
                else:
                    seg.append(x)
            flush()
            return total
        elems = [self.poly(x, sc, at, depth) for x in e.elts]
        d = frozenset().union(*[x.deps for x in elems]) if elems else frozenset()
        g = frozenset().union(*[x.gdeps for x in elems]) if elems else frozenset()
        p = Poly.atom("(" + ", ".join(x.canon() for x in elems) + ")", d, g)
        p.elems = elems
        return p

    _e_List = _e_Tuple

    def _e_IfExp(self, e, sc, at, depth):
        # `a if a < b else b` is min(a, b) (max likewise): same canonical form as the builtin
        t = e.test
        if isinstance(t, ast.Compare) and len(t.ops) == 1 and isinstance(t.ops[0], (ast.Lt, ast.LtE, ast.Gt, ast.GtE)):
            L, R = ast.dump(t.left), ast.dump(t.comparators[0])
            B, O = ast.dump(e.body), ast.dump(e.orelse)
            if {B, O} == {L, R} and L != R:
                less = isinstance(t.ops[0], (ast.Lt, ast.LtE))
                fn = "min" if (B == L) == less else "max"
                call = ast.Call(func=ast.Name(id=fn, ctx=ast.Load()), args=[t.left, t.comparators[0]], keywords=[])
                return self.poly(ast.copy_location(call, e), sc, at, depth)
        c = self.poly(e.test, sc, at, depth)
        a = self.poly(e.body, sc, at, depth)
        b = self.poly(e.orelse, sc, at, depth)
        if a == b:
            return a
        return Poly.atom(f"ite({c.canon()}, {a.canon()}, {b.canon()})", c.deps | a.deps | b.deps, a.gdeps | b.gdeps)

    def _e_Compare(self, e, sc, at, depth):
        parts = [self.poly(e.left, sc, at, depth)] + [self.poly(x, sc, at, depth) for x in e.comparators]
        deps = frozenset().union(*[p.deps for p in parts])
        atoms = []
        for i, op in enumerate(e.ops):
            a, b = parts[i], parts[i + 1]
            nm = type(op).__name__
            if nm in ("Gt", "GtE"):
                a, b = b, a
                nm = {"Gt": "Lt", "GtE": "LtE"}[nm]
            if nm in ("Eq", "NotEq") and a.canon() > b.canon():
                a, b = b, a
            atoms.append(f"{nm}({a.canon()}, {b.canon()})")
            self.meta.setdefault(atoms[-1], {"deps": a.deps | b.deps, "gdeps": frozenset(), "fn": nm, "args": [a, b], "kws": {}})
        if len(atoms) == 1:
            return Poly.atom(atoms[0], deps)
        return Poly.atom("and(" + ", ".join(sorted(atoms)) + ")", deps)  # a < b <= c  ==  a < b and b <= c

    def _e_BoolOp(self, e, sc, at, depth):
        parts = [self.poly(x, sc, at, depth) for x in e.values]
        deps = frozenset().union(*[p.deps for p in parts])
        nm = "and" if isinstance(e.op, ast.And) else "or"
        texts = [p.canon() for p in parts]
        _BOOLISH = ("Eq(", "NotEq(", "Lt(", "LtE(", "Is(", "IsNot(", "In(", "NotIn(", "and(", "or(", "not(")
        if all(t in ("0", "1") or t.startswith(_BOOLISH) for t in texts):
            # operands are truth values: the neutral constant can be dropped, the absorbing one decides
            neutral, absorbing = ("1", "0") if nm == "and" else ("0", "1")
            if absorbing in texts:
                return Poly.const(int(absorbing)) if hasattr(Poly, "const") else Poly({(): int(absorbing)})
            keep = [(t, p) for t, p in zip(texts, parts) if t != neutral]
            if not keep:
                return Poly.const(int(neutral)) if hasattr(Poly, "const") else Poly({(): int(neutral)})
            if len(keep) == 1:
                return keep[0][1]
            texts = [t for t, _ in keep]
        return Poly.atom(f"{nm}(" + ", ".join(sorted(texts)) + ")", deps)

    def _e_JoinedStr(self, e, sc, at, depth):
        parts, deps = [], frozenset()
        if len(e.values) == 1 and isinstance(e.values[0], ast.FormattedValue) and e.values[0].format_spec is None and e.values[0].conversion == -1:
            return self.poly(e.values[0].value, sc, at, depth)  # f"{x}" is str(x): same identity for path comparisons
        for v in e.values:
            if isinstance(v, ast.Constant):
                parts.append(repr(v.value))
            elif isinstance(v, ast.FormattedValue):
                p = self.poly(v.value, sc, at, depth)
                deps |= p.deps
                spec = ast.unparse(v.format_spec) if v.format_spec is not None else ""
                parts.append("{" + p.canon() + (":" + spec if spec else "") + "}")
        return Poly.atom("fstr(" + "".join(parts) + ")", deps)

    def _e_Lambda(self, e, sc, at, depth):
        return Poly.atom(f"λ[{ast.unparse(e)}]")

    def _e_Starred(self, e, sc, at, depth):
        p = self.poly(e.value, sc, at, depth)
        return Poly.atom(f"*{p.canon()}", p.deps, p.gdeps)

    def _e_NamedExpr(self, e, sc, at, depth):
        return self.poly(e.value, sc, at, depth)

    def _opaque(self, e, sc, at, depth):
        names = set()
        for n in ast.walk(e):
            if isinstance(n, ast.Name):
                names.add(n.id)
        return Poly.atom(f"⟦{ast.unparse(e)}⟧", names, names)

    # -- calls ---------------------------------------------------------------------------------
    def _args(self, e: ast.Call, sc, at, depth):
        args = [self.poly(a, sc, at, depth) for a in e.args]
        kws = {(k.arg if k.arg is not None else "**"): self.poly(k.value, sc, at, depth) for k in e.keywords}
        if kws and "**" not in kws and isinstance(e.func, ast.Attribute) and not any(isinstance(a, ast.Starred) for a in e.args):
            order = self._module_call_order(len(args), set(kws))
            if order is not None:
                args, kws = args + [kws[k] for k in order], {}
        return args, kws

    def _class_of_scope(self, sc):
        """Qualified name of the class whose method the scope evaluates (from the scope's CFG function or its qualified name)."""
        fn_ = getattr(getattr(sc, "cfg", None), "fn", None)
        p_ = getattr(fn_, "_parent", None)
        if isinstance(p_, ast.ClassDef):
            mi_ = getattr(fn_, "_module", None) or sc.mi
            q_ = self.repo.canonical(f"{mi_.name}.{p_.name}", p_)
            try:
                self.repo.cls(q_)
                return q_
            except Exception:
                pass
        q_ = getattr(sc, "qual", "") or ""
        if "." in q_:
            c_ = q_.rsplit(".", 1)[0]
            try:
                self.repo.cls(c_)
                return c_
            except Exception:
                return None
        return None

    def _module_call_order(self, n_pos: int, names: set):
        """Keywords of a call on an object whose class is not known statically (`critic(sa, zs=zs, zsa=zsa)`, possibly through a
        *args/**kwargs forwarder) are bound by signature: when every `__call__` of the repository that accepts exactly these keyword
        names after ``n_pos`` positional arguments puts them in the same order, that order is the positional form."""
        if not hasattr(self, "_call_sigs"):
            self._call_sigs = []
            for q, fn, mi in self.repo.all_functions():
                if q.endswith(".__call__"):
                    ps = [a.arg for a in fn.args.posonlyargs + fn.args.args][1:]
                    if ps and not fn.args.vararg and not fn.args.kwarg:
                        self._call_sigs.append(ps)
        orders = set()
        for ps in self._call_sigs:
            if len(ps) >= n_pos + len(names) and set(ps[n_pos:n_pos + len(names)]) == names:
                orders.add(tuple(ps[n_pos:n_pos + len(names)]))
        return list(orders.pop()) if len(orders) == 1 else None

    def _e_Call(self, e: ast.Call, sc, at, depth):
        f = e.func
        # 0. a local that merely renames a function (`sg = jax.lax.stop_gradient`, `clip = jnp.clip`): call the function itself
        if isinstance(f, ast.Name) and sc.cfg is not None and at is not None and f.id not in sc.env:
            ds = sc.cfg.defs_of(at, f.id)
            if len(ds) == 1 and ds[0].kind == "assign" and isinstance(ds[0].value, (ast.Name, ast.Attribute)) and depth < 12:
                tgt = ds[0].value
                root_ = tgt
                while isinstance(root_, ast.Attribute):
                    root_ = root_.value
                if isinstance(root_, ast.Name) and not sc.cfg.defs_of(ds[0].node, root_.id):
                    e2 = ast.copy_location(ast.Call(func=tgt, args=e.args, keywords=e.keywords), e)
                    return self._e_Call(e2, sc, at, depth + 1)
        # 0b. functools.reduce(f, (a, b, c)) with a literal sequence is the left fold f(f(a, b), c)
        if isinstance(f, (ast.Name, ast.Attribute)) and self.repo.resolve_expr(sc.mi, f) == "functools.reduce" and len(e.args) in (2, 3) and not e.keywords \
                and isinstance(e.args[1], (ast.Tuple, ast.List)) and e.args[1].elts and not any(isinstance(x, ast.Starred) for x in e.args[1].elts):
            items = ([e.args[2]] if len(e.args) == 3 else []) + list(e.args[1].elts)
            acc = items[0]
            for it_ in items[1:]:
                acc = ast.copy_location(ast.Call(func=e.args[0], args=[acc, it_], keywords=[]), e)
            return self.poly(acc, sc, at, depth + 1)
        # 1. library function by resolved name (jnp.mean, jax.lax.stop_gradient, optax.squared_error ...)
        op = None
        recv = None
        if isinstance(f, (ast.Name, ast.Attribute)):
            root = f
            while isinstance(root, ast.Attribute):
                root = root.value
            is_local = isinstance(root, ast.Name) and sc.cfg is not None and at is not None and bool(sc.cfg.defs_of(at, root.id))
            if isinstance(root, ast.Name) and not is_local and root.id not in sc.env:
                op = self.libop(sc.mi, f)
                if op is None and isinstance(f, ast.Name) and f.id in ("float", "int", "len", "abs", "min", "max", "sum", "range", "isinstance", "tuple", "list", "bool"):
                    op = f.id
                if op is None:
                    r = self.repo.resolve_expr(sc.mi, f)
                    if r and r.startswith(self.repo.PKG + "."):
                        return self._repo_call(r, e, sc, at, depth)
        # 2. method-style library ops on a value: x.mean(), x.squeeze(), x.at[i].add(v) ...
        if op is None and isinstance(f, ast.Attribute):
            if f.attr in METHOD_OPS:
                recv = self.poly(f.value, sc, at, depth)
                op = f.attr
        if op is not None:
            args, kws = self._args(e, sc, at, depth)
            if recv is not None:
                args = [recv] + args
            return self._libcall(op, args, kws, e)
        # 3. calls through local names (aliases made with partial / jit / value_and_grad are left opaque here;
        #    the role-binding rules resolve them explicitly) and method calls on objects
        args, kws = self._args(e, sc, at, depth)
        if isinstance(f, ast.Attribute):
            base = self.poly(f.value, sc, at, depth)
            # method of a repo class via self
            if isinstance(f.value, ast.Name) and f.value.id == "self" and sc.self_class:
                m = self.repo.method(sc.self_class, f.attr)
                if m is not None and self.inline_calls and depth < self.inline_depth:
                    owner, fn = m
                    r = self._inline(fn, f"{owner}.{f.attr}", e, sc, at, depth, skip_self=True)
                    if r is not None:
                        return r
            fname = f"{base.canon()}.{f.attr}"
            fdeps, fg = base.deps, base.gdeps
            if kws and "**" not in kws and isinstance(f.value, ast.Name) and f.value.id == "self":
                # keywords of a call of the object's own method are bound by its signature: one spelling of the call
                cq_ = sc.self_class or self._class_of_scope(sc)
                m_ = self.repo.method(cq_, f.attr) if cq_ else None
                if m_ is not None and not m_[1].args.vararg:
                    ps_ = [a_.arg for a_ in m_[1].args.posonlyargs + m_[1].args.args][1:] + [a_.arg for a_ in m_[1].args.kwonlyargs]
                    args, kws = list(args), dict(kws)
                    while len(args) < len(ps_) and ps_[len(args)] in kws:
                        args.append(kws.pop(ps_[len(args)]))
        else:
            if isinstance(f, ast.Name) and f.id == "self" and sc.self_class and self.inline_calls and depth < self.inline_depth:
                m = self.repo.method(sc.self_class, "__call__")
                if m is not None:
                    r = self._inline(m[1], f"{m[0]}.__call__", e, sc, at, depth, skip_self=True)
                    if r is not None:
                        return r
            fp = self.poly(f, sc, at, depth)
            fname, fdeps, fg = fp.canon(), fp.deps, fp.gdeps
        out = self._mkcall(fname, args, kws, fdeps, fg)
        if isinstance(f, ast.Attribute) and isinstance(f.value, ast.Subscript) and isinstance(f.value.value, ast.Attribute) and f.value.value.attr == "at" and out.single_atom() in self.meta:
            # functional array update  X.at[idx].op(v): keep the parts for element-wise readings
            idx_txt, _d = self._slice(f.value.slice, sc, at, depth)
            self.meta[out.single_atom()]["at"] = {"base": self.poly(f.value.value.value, sc, at, depth), "index": idx_txt, "op": f.attr}
        return out

    def _mkcall(self, fname, args, kws, fdeps=frozenset(), fg=frozenset(), nondiff=False):
        deps = frozenset(fdeps).union(*[a.deps for a in args], *[v.deps for v in kws.values()])
        g = frozenset() if nondiff else frozenset(fg).union(*[a.gdeps for a in args], *[v.gdeps for v in kws.values()])
        short_ = fname.split(".")[-1]
        if kws and short_ in LIB_SIG and "**" not in kws:
            # keywords that continue the positional prefix of a library function become positional: one canonical call shape
            sig = LIB_SIG[short_]
            args, kws = list(args), dict(kws)
            while len(args) < len(sig) and sig[len(args)] in kws:
                args.append(kws.pop(sig[len(args)]))
        if short_ in ("argmax", "argmin", "max", "min", "sum", "mean", "prod", "any", "all") and "axis" in kws and kws["axis"].canon() == "None":
            kws = {k: v for k, v in kws.items() if k != "axis"}       # axis=None is the default (reduce over everything)
        if short_ == "clip" and len(args) + len(kws) == 2:
            # one-sided clip: clip(x, min=a) == maximum(x, a), clip(x, max=b) == minimum(x, b)
            lo_k1 = next((k for k in ("a_min", "min", "min_val") if k in kws), None)
            hi_k1 = next((k for k in ("a_max", "max", "max_val") if k in kws), None)
            if len(args) == 1 and lo_k1:
                return self._mkcall(fname.rsplit("clip", 1)[0] + "maximum", [args[0], kws[lo_k1]], {}, fdeps, fg, nondiff)
            if len(args) == 1 and hi_k1:
                return self._mkcall(fname.rsplit("clip", 1)[0] + "minimum", [args[0], kws[hi_k1]], {}, fdeps, fg, nondiff)
        if short_ == "clip" and len(args) == 3 and not kws and any(a_.canon() == "None" for a_ in args[1:]):
            if args[2].canon() == "None" and args[1].canon() != "None":
                return self._mkcall(fname.rsplit("clip", 1)[0] + "maximum", [args[0], args[1]], {}, fdeps, fg, nondiff)
            if args[1].canon() == "None" and args[2].canon() != "None":
                return self._mkcall(fname.rsplit("clip", 1)[0] + "minimum", [args[0], args[2]], {}, fdeps, fg, nondiff)
        if short_ == "clip" and kws and len(args) <= 3:
            lo_k = next((k for k in ("a_min", "min", "min_val") if k in kws), None)
            hi_k = next((k for k in ("a_max", "max", "max_val") if k in kws), None)
            if len(args) == 1 and lo_k and hi_k and len(kws) == 2:
                args, kws = [args[0], kws[lo_k], kws[hi_k]], {}
            elif len(args) == 2 and hi_k and len(kws) == 1:
                args, kws = [args[0], args[1], kws[hi_k]], {}
        if short_ == "clip" and len(args) == 3 and not kws and args[1] == args[2]:
            return args[1]       # an interval of one point: the value is that point for every x
        if short_ == "clip" and len(args) == 3 and not kws:
            # clip(x, lo, hi) == minimum(maximum(x, lo), hi) is symmetric in (x, lo): canonical order of the first two
            args = sorted(args[:2], key=lambda a: a.canon()) + [args[2]]
        if short_ == "minimum" and len(args) == 2 and not kws:
            # minimum(hi, maximum(lo, x)) is jnp.clip(x, lo, hi): same canonical atom
            inner = [(i, self.meta.get(a.single_atom() or "", {})) for i, a in enumerate(args)]
            mx = [(i, m_) for i, m_ in inner if m_.get("fn", "").split(".")[-1] == "maximum" and len(m_.get("args", [])) == 2 and not m_.get("kws")]
            if len(mx) == 1:
                i, m_ = mx[0]
                hi = args[1 - i]
                return self._mkcall("clip", list(m_["args"]) + [hi], {}, fdeps, fg, nondiff)
        if fname in ("min", "max") and len(args) == 1 and not kws and args[0].elems is not None and len(args[0].elems) >= 2:
            args = list(args[0].elems)     # builtin min((a, b)) == min(a, b)
        if short_ in ("min", "max", "minimum", "maximum") and len(args) >= 2 and not kws:
            args = sorted(args, key=lambda a: a.canon())   # commutative: one canonical argument order
        txt = ", ".join([a.canon() for a in args] + [f"{k}={v.canon()}" for k, v in sorted(kws.items())])
        name = f"{fname}({txt})"
        self.meta[name] = {"deps": deps, "gdeps": g, "fn": fname, "args": list(args), "kws": dict(kws)}
        return Poly.atom(name, deps, g)

    def _libcall(self, op: str, args, kws, e) -> Poly:
        short = op.split(".")[-1]
        if op == "sum" and not kws and 1 <= len(args) <= 2 and args[0].elems is not None:
            # builtin sum over a display: the sum of its elements
            tot = args[1] if len(args) == 2 else Poly.const(0)
            for el in args[0].elems:
                tot = tot + el
            return tot
        if short == "arange" and not kws and len(args) in (2, 3):
            # arange(s, e, k) == s + k * arange((e - s) / k): one normal form for shifted / reversed progressions
            k_ = args[2] if len(args) == 3 else Poly.const(1)
            if k_.is_const() and k_.const_value() != 0:
                kv = k_.const_value()
                count = (args[1] - args[0]).scale(1 / kv)
                return args[0] + self._libcall(op, [count], {}, e).scale(kv)
        if short == "reshape" and len(args) == 2 and not kws and "reshape" not in self.keep_layout:
            # x.reshape(-1) is ravel; x.reshape(y.shape) lays the same elements out like another array: value-transparent like squeeze / ravel
            t_ = args[1]
            if (t_.is_const() and t_.const_value() == -1) or (t_.single_atom() is not None and t_.single_atom().endswith(".shape")):
                return args[0]
        if short in self.strip and args:
            p = args[0]
            if short == "stop_gradient":
                return self.freeze(p) if self.track_sg else p.with_meta(p.deps, frozenset())
            if short in ("int", "item"):
                return p
            return p
        if short in ("squared_error", "l2_loss", "huber_loss") and not args[1:] and ("predictions" in kws or "targets" in kws):
            # keyword form optax.squared_error(predictions=P, targets=T)
            args = [kws.pop("predictions", args[0] if args else Poly.const(0))] + ([kws.pop("targets")] if "targets" in kws else [])
        elif short in ("squared_error", "l2_loss", "huber_loss") and len(args) == 1 and "targets" in kws:
            args = [args[0], kws.pop("targets")]
        if short in ("square",) and len(args) == 1:
            return self.square(args[0])
        if short in ("squared_error",) and len(args) == 2 and not kws:
            return self.square(args[0] - args[1])
        if short in ("l2_loss",) and len(args) == 2 and not kws:
            return self.square(args[0] - args[1]).scale(Fraction(1, 2))
        if short in ("l2_loss", "squared_error") and len(args) == 1 and not kws:
            return self.square(args[0]).scale(Fraction(1, 2) if short == "l2_loss" else 1)
        if short == "abs" or short in ("absolute", "fabs"):
            short = "abs"
        if short == "huber_loss" and len(args) == 2:
            # optax.huber_loss(predictions, targets, delta) == huber of |P - T|
            d = args[0] - args[1]
            lead = sorted(d.terms.items(), key=lambda kv: (len(kv[0]), kv[0]))[0][1] if d.terms else 1
            d = d if lead > 0 else -d
            inner = self._mkcall("abs", [d], {})
            return self._mkcall("huber", [inner], kws)
        if short == "negative" and len(args) == 1:
            return -args[0]
        if short in ("add", "subtract", "multiply", "divide", "true_divide") and len(args) == 2:
            a, b = args
            return {"add": a + b, "subtract": a - b, "multiply": a * b}.get(short, a * b.inv())
        if short == "sqrt" and len(args) == 1:
            return self._reg(Poly.atom(f"pow({args[0].canon()}, 1/2)", args[0].deps, args[0].gdeps), "pow", [args[0], Poly.const(Fraction(1, 2))])
        if short in ("power", "pow") and len(args) == 2:
            return self._pow(args[0], args[1])
        if short in LINEAR and args:
            p = args[0]
            rest = args[1:]
            suffix = ", ".join([a.canon() for a in rest] + [f"{k}={v.canon()}" for k, v in sorted(kws.items())])
            out = Poly({}, p.deps, p.gdeps)
            for m, c in p.terms.items():
                if m == () and short == "mean":
                    out = out + Poly({(): c})
                    continue
                inner_p = Poly({m: Fraction(1)}, p.deps, p.gdeps)
                inner = inner_p.canon()
                nm = f"{short}({inner}{', ' + suffix if suffix else ''})"
                self.meta[nm] = {"deps": p.deps, "gdeps": p.gdeps, "fn": short, "args": [inner_p] + list(rest), "kws": dict(kws)}
                out = out + Poly({((nm, 1),): c})
            return out.with_meta(p.deps.union(*[a.deps for a in rest]) if rest else p.deps, p.gdeps)
        if short in COMMUTATIVE and len(args) == 2 and not kws:
            args = sorted(args, key=lambda p: p.canon())
        if short == "abs" and len(args) == 1 and args[0].terms:
            lead = sorted(args[0].terms.items(), key=lambda kv: (len(kv[0]), kv[0]))[0][1]
            if lead < 0:
                args = [-args[0]]
        return self._mkcall(short, args, kws, nondiff=short in NONDIFF)

    # -- repo callee inlining -------------------------------------------------------------------
    def _repo_call(self, qual: str, e: ast.Call, sc, at, depth):
        args, kws = self._args(e, sc, at, depth)
        try:
            mi, node = self.repo.lookup(qual)
        except Exception:
            return self._mkcall(qual, args, kws)
        if isinstance(node, ast.FunctionDef) and self.inline_calls and depth < self.inline_depth and qual not in self.no_inline:
            node._module = mi
            r = self._inline(node, self.repo.canonical(f"{mi.name}.{node.name}", node), e, sc, at, depth)
            if r is not None:
                return r
        q = self.repo.canonical(f"{mi.name}.{node.name}", node) if hasattr(node, "name") else qual
        fields = self._record_fields(node)
        if fields is not None and "**" not in kws and not any(isinstance(a_, ast.Starred) for a_ in e.args) and len(args) + len(kws) <= len(fields) and set(kws) <= set(fields):
            # construction of a plain record (NamedTuple / dataclass / namedtuple(...)): field reads project the constructor arguments
            rec = dict(zip(fields, args))
            if not (set(rec) & set(kws)):
                rec.update(kws)
                out = self._mkcall(q, [rec[f] for f in fields if f in rec], {})
                if out.single_atom() in self.meta and len(rec) == len(fields):
                    self.meta[out.single_atom()]["record"] = rec
                return out
        if isinstance(node, ast.FunctionDef) and kws and "**" not in kws and not any(isinstance(a_, ast.Starred) for a_ in e.args):
            # one canonical call shape: keywords that continue the positional prefix become positional arguments
            params = positional_params(node)
            k2 = dict(kws)
            a2 = list(args)
            while len(a2) < len(params) and params[len(a2)] in k2:
                a2.append(k2.pop(params[len(a2)]))
            args, kws = a2, k2
        if isinstance(node, ast.FunctionDef) and "**" not in kws and not any(isinstance(a_, ast.Starred) for a_ in e.args):
            # an argument that repeats the callee's own default is the call without it: trailing positionals and keywords
            params = positional_params(node)
            a_ = node.args
            pos_ = a_.posonlyargs + a_.args
            dflt = dict(zip([x.arg for x in pos_[len(pos_) - len(a_.defaults):]], a_.defaults))
            dflt.update({x.arg: d for x, d in zip(a_.kwonlyargs, a_.kw_defaults) if d is not None})

            def _is_default(name, val):
                d = dflt.get(name)
                if d is None or not isinstance(d, (ast.Constant, ast.UnaryOp)):
                    return False
                try:
                    return self.poly(d, Scope(None, mi), None) == val
                except Exception:
                    return False
            args = list(args)
            while args and len(args) <= len(params) and not kws and _is_default(params[len(args) - 1], args[-1]):
                args.pop()
            kws = {k_: v_ for k_, v_ in kws.items() if not _is_default(k_, v_)}
            while args and len(args) <= len(params) and not kws and _is_default(params[len(args) - 1], args[-1]):
                args.pop()
        return self._mkcall(q, args, kws)

    @staticmethod
    def _record_fields(node):
        """Field names (in constructor order) of a NamedTuple / dataclass class or a `namedtuple("N", [...])` assignment, else None."""
        if isinstance(node, ast.ClassDef):
            is_nt = any((isinstance(b, ast.Name) and b.id == "NamedTuple") or (isinstance(b, ast.Attribute) and b.attr == "NamedTuple") for b in node.bases)
            is_dc = any("dataclass" in ast.unparse(d) for d in node.decorator_list)
            if not (is_nt or is_dc) or any(isinstance(m, ast.FunctionDef) and m.name in ("__init__", "__new__", "__post_init__") for m in node.body):
                return None
            return [m.target.id for m in node.body if isinstance(m, ast.AnnAssign) and isinstance(m.target, ast.Name)]
        if isinstance(node, ast.Assign) and isinstance(node.value, ast.Call) and isinstance(node.value.func, (ast.Name, ast.Attribute)) \
                and (node.value.func.id if isinstance(node.value.func, ast.Name) else node.value.func.attr) == "namedtuple" and len(node.value.args) == 2:
            f = node.value.args[1]
            if isinstance(f, (ast.List, ast.Tuple)) and all(isinstance(x, ast.Constant) and isinstance(x.value, str) for x in f.elts):
                return [x.value for x in f.elts]
            if isinstance(f, ast.Constant) and isinstance(f.value, str):
                return f.value.replace(",", " ").split()
        return None

    def inlinable(self, fn: ast.FunctionDef) -> bool:
        rets = [n for n in ast.walk(fn) if isinstance(n, ast.Return)]
        if len(rets) != 1 or rets[0].value is None:
            return False
        for n in ast.walk(fn):
            if isinstance(n, (ast.For, ast.While, ast.Try, ast.With, ast.Yield, ast.YieldFrom)):
                return False
            if isinstance(n, (ast.FunctionDef, ast.Lambda)) and n is not fn:
                return False
        if fn.args.vararg or fn.args.kwarg:
            return False
        return True

    def _inline(self, fn, qual, e: ast.Call, sc, at, depth, skip_self=False):
        if not self.inlinable(fn):
            return None
        params = positional_params(fn)
        if skip_self and params and params[0] == "self":
            params = params[1:]
        env = {}
        if any(isinstance(a, ast.Starred) for a in e.args) or any(k.arg is None for k in e.keywords):
            return None
        for i, a in enumerate(e.args):
            if i >= len(params):
                return None
            env[params[i]] = self.poly(a, sc, at, depth)
        for k in e.keywords:
            env[k.arg] = self.poly(k.value, sc, at, depth)
        # defaults
        a = fn.args
        pos = a.posonlyargs + a.args
        for p, dflt in zip(pos[len(pos) - len(a.defaults):], a.defaults):
            if p.arg not in env:
                env[p.arg] = self.poly(dflt, Scope(None, fn._module), None)
        for p, dflt in zip(a.kwonlyargs, a.kw_defaults):
            if dflt is not None and p.arg not in env:
                env[p.arg] = self.poly(dflt, Scope(None, fn._module), None)
        for p in params:
            if p not in env:
                return None
        cfg = self.cfg_of(fn)
        sub = Scope(cfg, fn._module, env, qual, self_class=sc.self_class if skip_self else None)
        ret = [n for n in cfg.nodes if isinstance(n.ast, ast.Return) and n.kind == "stmt"][0]
        self.inlined.append((sc.qual, qual))
        return self.poly(ret.ast.value, sub, ret.id, depth + 1)


METHOD_OPS = {"mean", "sum", "squeeze", "astype", "flatten", "ravel", "reshape", "min", "max", "argmax", "argmin", "copy",
              "transpose", "item", "clip", "std", "var", "prod", "cumsum", "swapaxes", "take", "dot", "all", "any", "round"}


def same(a: Poly, b: Poly) -> bool:
    return a == b


def parse_expr(txt: str) -> ast.AST:
    return ast.parse(txt, mode="eval").body
