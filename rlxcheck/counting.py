"""Finite-state exploration of a CFG with a small abstract state (counter differences), with path witnesses.

This is dataflow over the product (CFG node x abstract value); the abstract value is supplied by the rule
(an integer difference such as  executed_steps - (counter - start), or a symbolic polynomial).  The product
graph is finite as long as the value stays in a bounded set; values leaving the bound are reported as drift.
"""
from __future__ import annotations

from collections import deque


class Drift(Exception):
    def __init__(self, node, state, path):
        self.node, self.state, self.path = node, state, path


def explore(cfg, init_state, transfer, check=None, start=None, max_states=50000, bound=None):
    """Breadth-first exploration.

    transfer(node_id, succ_id, label, state) -> new state | None (edge infeasible) | list of states
    check(node_id, state) -> optional problem description (collected)
    bound(state) -> True if state is still inside the tracked range
    Returns (visited: dict[(node,state)] -> parent key, problems: list[(node, state, text)]).
    """
    start = cfg.entry if start is None else start
    k0 = (start, init_state)
    parent = {k0: None}
    q = deque([k0])
    problems = []
    while q:
        key = q.popleft()
        nid, st = key
        if check is not None:
            p = check(nid, st)
            if p:
                problems.append((nid, st, p, key))
        for s, lab in cfg.nodes[nid].succ:
            new = transfer(nid, s, lab, st)
            if new is None:
                continue
            for ns in (new if isinstance(new, list) else [new]):
                if bound is not None and not bound(ns):
                    problems.append((s, ns, "counter difference left the tracked range (unbounded drift)", key))
                    continue
                k = (s, ns)
                if k not in parent:
                    parent[k] = key
                    q.append(k)
                    if len(parent) > max_states:
                        raise RuntimeError("state space too large")
    return parent, problems


def path_to(parent, key):
    out = []
    while key is not None:
        out.append(key)
        key = parent[key]
    return out[::-1]
