import os, tempfile, numpy as np, jax, jax.numpy as jnp
from flax import nnx
from rl_blox.blox.function_approximator.mlp import MLP
from rl_blox.blox.probabilistic_ensemble import restore_checkpoint
from rl_blox.logging.checkpointer import OrbaxCheckpointer
for n_hidden in (3, 12):
    m = MLP(3, 2, [8]*n_hidden, "relu", nnx.Rngs(0))
    m2 = MLP(3, 2, [8]*n_hidden, "relu", nnx.Rngs(1))
    d = tempfile.mkdtemp()
    ck = OrbaxCheckpointer(d)
    p = os.path.join(d, "m")
    ck.save_model(p, m)
    r = restore_checkpoint(p, m2)
    x = jnp.ones((4, 3))
    print(n_hidden, "max |restored(x) - original(x)| =", float(jnp.abs(r(x) - m(x)).max()))
