# witnesses: C13 GaussianPolicy.entropy, C12 ppo value term, C17 ensemble shapes, C08 PER indices, C07 masked MSE on rank-1
import jax, jax.numpy as jnp, numpy as np
from flax import nnx
from rl_blox.blox.function_approximator.gaussian_mlp import GaussianMLP
from rl_blox.blox.function_approximator.mlp import MLP
from rl_blox.blox.function_approximator.policy_head import GaussianPolicy, SoftmaxPolicy

pol = GaussianPolicy(GaussianMLP(False, 3, 2, [8], "relu", nnx.Rngs(0)))
for n in (1, 2, 3):
    try:
        print("C13 entropy batch", n, "shape", pol.entropy(jnp.ones((n, 3))).shape)
    except Exception as ex:
        print("C13 entropy batch", n, "ERR", type(ex).__name__, str(ex)[:70])

from rl_blox.algorithm.ppo import ppo_loss
actor = SoftmaxPolicy(MLP(3, 2, [8], "relu", nnx.Rngs(0))); critic = MLP(3, 1, [8], "relu", nnx.Rngs(1))
obs = jax.random.normal(jax.random.key(0), (5, 3)); act = jnp.array([0, 1, 0, 1, 1]); adv = jnp.zeros(5); ret = jnp.arange(5.0)
l = ppo_loss(actor, critic, actor.log_probability(obs, act), obs, act, adv, ret)
v = critic(obs); ent = 0.01 * actor.entropy(obs).mean()
print("C12 ppo_loss value term:", float(l + ent), "per-sample 0.5*mean((R-V)^2) =", float(0.5 * jnp.mean((ret - v.flatten()) ** 2)),
      "outer-product broadcast =", float(0.5 * jnp.mean((ret - v) ** 2)))

from rl_blox.blox.probabilistic_ensemble import GaussianMLPEnsemble
m = GaussianMLPEnsemble(3, True, 4, 2, [8], "relu", nnx.Rngs(0)); x = jnp.ones((5, 4))
mu, var = m.base_predict(x, 0); print("C17 base_predict shapes", mu.shape, var.shape, "(expected (5,2),(5,2))")
d = m.base_distribution(x[0], 0); print("C17 base_distribution on a vector: batch", d.batch_shape, "event", d.event_shape, "(expected (), (2,))")

from rl_blox.blox.replay_buffer import PrioritizedReplayBuffer
b = PrioritizedReplayBuffer(10, discrete_actions=True)
for i in range(5):
    b.add_sample(observation=np.ones(2) * i, action=0, reward=1.0, next_observation=np.ones(2), termination=False)
b.sample_batch(3, np.random.default_rng(0))
print("C08 sampled indices on buffer:", b.sampled_indices, " on PriorityBuffer:", b.priority.sampled_indices)
b.update_priority(5.0)   # scalar as per.py supplies: silently a no-op
print("C08 priorities after update_priority(5.0):", b.priority.priority[:5])
try:
    b.update_priority(np.array([5., 6., 7.]))
except ValueError as e:
    print("C08 update_priority(array) raises:", str(e)[:80])

from rl_blox.blox.losses import masked_mse_loss
p = jnp.array([1., 2., 3.]); t = jnp.zeros(3); mk = jnp.array([1., 0., 0.])
print("C07 masked_mse_loss rank-1:", float(masked_mse_loss(p, t, mk)), "rank-2:", float(masked_mse_loss(p[:, None], t[:, None], mk)), "(masked mean 0.333)")
