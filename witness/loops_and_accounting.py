# witnesses: C01 pets reset overwrite; C11 break accounting, dqn +1, ddpg zero-trip; C11 rollout guard
import numpy as np, gymnasium as gym, jax, jax.numpy as jnp
from flax import nnx
import optax

class RecEnv(gym.Env):
    """Deterministic env: obs = [episode, t, 0]; episode ends (truncated) after L steps."""
    def __init__(self, L=3, cont=True, term=False):
        self.L=L; self.term=term
        self.observation_space = gym.spaces.Box(-1e6,1e6,(3,),np.float32)
        self.action_space = gym.spaces.Box(-2.0,2.0,(1,),np.float32) if cont else gym.spaces.Discrete(2)
        self.ep=-1; self.t=0; self.log=[]; self.nsteps=0
    def reset(self, seed=None, options=None):
        super().reset(seed=seed); self.ep+=1; self.t=0; self.log.append(("reset",self.ep))
        return np.array([self.ep,0,0],np.float32), {}
    def step(self, a):
        self.t+=1; self.nsteps+=1
        done = self.t>=self.L
        return np.array([self.ep,self.t,0],np.float32), 1.0, bool(done and self.term), bool(done and not self.term), {}

# --- PETS
from rl_blox.algorithm.pets import train_pets, create_pets_state
from rl_blox.algorithm.pets_reward_models import pendulum_reward
env = RecEnv(L=3)
st = create_pets_state(env, seed=0, hidden_nodes=(8,))
res = train_pets(env, lambda a,o: jnp.zeros(a.shape[:-1]), st, plan_horizon=2, n_particles=2, n_samples=10,
                 seed=0, total_timesteps=8, learning_starts=100, progress_bar=False)
rb = res.replay_buffer
print("PETS stored observation[:, :2] (episode, t):")
print(rb.buffer["observation"][:len(rb), :2].tolist())
print("  -> rows 3 and 6 should be [1,0],[2,0] (reset obs) but are the previous episode's final obs")

# --- TD3 break accounting
from rl_blox.algorithm.td3 import create_td3_state, train_td3
env = RecEnv(L=3)
s = create_td3_state(env, policy_hidden_nodes=(8,), q_hidden_nodes=(8,), seed=0)
r = train_td3(env, s.policy, s.policy_optimizer, s.q, s.q_optimizer, total_timesteps=100, total_episodes=2,
              learning_starts=1000, progress_bar=False, global_step=10)
print("TD3: start=10 executed=%d reported=%d (expected %d)" % (env.nsteps, r.global_step, 10+env.nsteps))

# --- DQN +1
from rl_blox.algorithm.dqn import train_dqn
from rl_blox.blox.function_approximator.mlp import MLP
from rl_blox.blox.replay_buffer import ReplayBuffer
env = RecEnv(L=3, cont=False)
q = MLP(3,2,[8],"relu",nnx.Rngs(0)); opt = nnx.Optimizer(q, optax.adam(1e-3), wrt=nnx.Param)
r = train_dqn(q, env, ReplayBuffer(100, discrete_actions=True), opt, total_timesteps=7, progress_bar=False)
print("DQN: start=0 executed=%d reported=%d" % (env.nsteps, r.global_step))

# --- DDPG zero trip
from rl_blox.algorithm.ddpg import create_ddpg_state, train_ddpg
env = RecEnv(L=3)
s = create_ddpg_state(env, policy_hidden_nodes=(8,), q_hidden_nodes=(8,), seed=0)
r = train_ddpg(env, s.policy, s.policy_optimizer, s.q, s.q_optimizer, total_timesteps=5, global_step=5,
               learning_starts=1000, progress_bar=False)
print("DDPG zero-trip: start=5 executed=%d reported=%d" % (env.nsteps, r.steps_trained))
env = RecEnv(L=3)
r = train_ddpg(env, s.policy, s.policy_optimizer, s.q, s.q_optimizer, total_timesteps=100, total_episodes=2, global_step=5,
               learning_starts=1000, progress_bar=False)
print("DDPG break: start=5 executed=%d reported=%d" % (env.nsteps, r.steps_trained))

# --- nature dqn warm-up gate
from rl_blox.algorithm.nature_dqn import train_nature_dqn
class CountOpt(nnx.Optimizer):
    pass
env = RecEnv(L=50, cont=False)
q = MLP(3,2,[8],"relu",nnx.Rngs(0)); opt = nnx.Optimizer(q, optax.adam(1e-3), wrt=nnx.Param)
from rl_blox.logging.logger import MemoryLogger
lg = MemoryLogger()
r = train_nature_dqn(q, env, ReplayBuffer(100, discrete_actions=True), opt, batch_size=4, total_timesteps=30,
                     learning_starts=1000, update_frequency=1, logger=lg, progress_bar=False)
x,y = lg.get_stat("q loss", "step")
print("Nature-DQN learning_starts=1000 but q updates recorded at steps:", x[:5].tolist(), "... n=", len(x))
