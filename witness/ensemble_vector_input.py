"""Witness for C17 (vector inputs): for a single input vector the member / aggregate predictions of GaussianMLPEnsemble must have one
variance per output dimension and equal the corresponding row of the batch prediction.
Run:  cd <tree> && PYTHONPATH=<tree> JAX_PLATFORMS=cpu /venv/bin/python /verif/witness/ensemble_vector_input.py   (exit 0: holds, 1: broken)"""
import sys
import jax.numpy as jnp
import numpy as np
from flax import nnx
from rl_blox.blox.probabilistic_ensemble import GaussianMLPEnsemble

E, F, O = 3, 4, 2
m = GaussianMLPEnsemble(n_ensemble=E, shared_head=True, n_features=F, n_outputs=O, hidden_nodes=[8], activation="relu", rngs=nnx.Rngs(0))
# make the two output dimensions have different bounds so that a mixed-up axis is visible
m.raw_min_log_var.value = jnp.array([-1.0, 0.5])
m.raw_max_log_var.value = jnp.array([0.3, -0.7])
x = jnp.linspace(-1.0, 1.0, F)
X = x[None]
bad = []
for i in range(E):
    mu_b, var_b = m.base_predict(X, i)
    mu_v, var_v = m.base_predict(x, i)
    print(f"member {i}: batch var {np.asarray(var_b).tolist()}  vector var shape {var_v.shape} {np.asarray(var_v).tolist()}")
    if var_v.shape != (O,) or not np.array_equal(np.asarray(var_v), np.asarray(var_b[0])) or not np.array_equal(np.asarray(mu_v), np.asarray(mu_b[0])):
        bad.append(f"base_predict member {i}")
    d_b, d_v = m.base_distribution(X, i), m.base_distribution(x, i)
    if np.asarray(d_v.stddev()).shape != (O,) or not np.array_equal(np.asarray(d_v.stddev()), np.asarray(d_b.stddev())[0]):
        bad.append(f"base_distribution member {i}: stddev shape {np.asarray(d_v.stddev()).shape}")
mu_b, var_b = m.aggregate(X)
mu_v, var_v = m.aggregate(x)
print(f"aggregate: batch var {np.asarray(var_b).tolist()}  vector var shape {var_v.shape}")
if var_v.shape != (O,) or not np.allclose(np.asarray(var_v), np.asarray(var_b[0]), rtol=0, atol=0):
    bad.append("aggregate")
if bad:
    print("BROKEN:", bad)
    sys.exit(1)
print("holds: one variance per output dimension for vector inputs, equal to the batch row")
