# witness: C07 / PPO collect_trajectories patches obs[i] with i = position in the *filtered* list, not the env index
import numpy as np, jax, jax.numpy as jnp, gymnasium as gym
from rl_blox.algorithm.ppo import collect_trajectories
from rl_blox.logging.logger import MemoryLogger

class FakeVec:
    """3 envs; env 2 finishes at the first step. obs of env k is [k*10 + t]."""
    num_envs = 3
    def __init__(self): self.t = 0
    def reset(self, seed=None): return np.array([[0.],[10.],[20.]], np.float32), {}
    def step(self, a):
        self.t += 1
        obs = np.array([[0.+self.t],[10.+self.t],[20.+self.t]], np.float32)
        info = {}
        term = np.array([False, False, self.t == 1]); trunc = np.zeros(3, bool)
        if self.t == 1:
            obs[2] = 20.0   # SAME_STEP autoreset: returned obs is the reset obs, final obs in info
            info = {"episode": {"r": np.array([0.,0.,5.]), "l": np.array([0,0,1])},
                    "_episode": np.array([False, False, True]),
                    "final_obs": np.array([None, None, np.array([99.], np.float32)], dtype=object)}
        return obs, np.ones(3, np.float32), term, trunc, info
seen = []
class Actor:
    def sample(self, obs, key): return jnp.zeros((3,), jnp.int32)
def critic(obs):
    seen.append(np.asarray(obs).ravel().tolist()); return jnp.zeros((3,1))
out = collect_trajectories(FakeVec(), Actor(), critic, jax.random.key(0), batch_size=1, logger=MemoryLogger())
print("obs handed to the critic for next_value after step 1:", seen[0])
print("  env 2 finished with final obs 99 -> expected [1, 11, 99]; the code wrote 99 into env 0")
