import numpy as np, jax, jax.numpy as jnp, gymnasium as gym
# --- double Q
from rl_blox.algorithm.double_q_learning import _dql_update
q1 = jnp.array([[0.,5.],[9.,0.],[0.,0.]]); q2 = jnp.array([[0.,0.],[1.,2.],[0.,0.]])
# s=0,a=0,r=0,s'=1: correct: a* = argmax q1[1]=0 -> q2[1,0]=1 ; buggy: argmax q1[0]=1 -> q2[1,1]=2
out = _dql_update(jax.random.key(0), q1, q2, 0, 0, 0.0, 1, 1.0, 1.0, False)
print("double-Q new Q1[0,0] =", float(out[0,0]), "(textbook 1.0; selecting at s gives 2.0)")
# --- dynaq model
from rl_blox.algorithm.dynaq import Counter, ForwardModel, counter_update, model_update
nS,nA=3,1
c = Counter([[[0]*nS for _ in range(nA)] for _ in range(nS)], [[[[] for _ in range(nS)] for _ in range(nA)] for _ in range(nS)])
m = ForwardModel(jnp.zeros((nS,nA,nS)), jnp.zeros((nS,nA,nS)))
for nxt in (1,2):
    c = counter_update(c,0,0,1.0,nxt); m = model_update(m,c,0,0,nxt)
print("dyna-Q model P(.|s=0,a=0) after (0,0)->1 then (0,0)->2:", np.asarray(m.transition[0,0]).tolist(), "(empirical [0,.5,.5])")
# --- PPO GAE across env boundary
from rl_blox.blox.gae import compute_gae
T,E=3,2
rew = jnp.ones((E*T,)); val=jnp.zeros(E*T); nv=jnp.zeros(E*T); term=jnp.zeros(E*T)
a1,_ = compute_gae(rew,val,nv,term)
rew2 = rew.at[T:].set(100.0)  # change only env 1's rewards
a2,_ = compute_gae(rew2,val,nv,term)
print("PPO-style flat GAE: env0 advantages change when only env1 rewards change:", np.asarray(a1[:T]).round(2).tolist(), "->", np.asarray(a2[:T]).round(2).tolist())
# --- generate_rollout guard
from rl_blox.util.experiment_helper import generate_rollout
class TruncEnv(gym.Env):
    observation_space=gym.spaces.Discrete(3); action_space=gym.spaces.Discrete(2)
    def __init__(self): self.t=0; self.after=0
    def reset(self, seed=None, options=None): self.t=0; return 0,{}
    def step(self,a):
        self.t+=1
        if self.t>3:
            self.after+=1
            if self.after>=5: raise RuntimeError("stepped %d times after truncation without reset"%self.after)
        return 0,0.0,False,self.t>=3,{}
try:
    generate_rollout(TruncEnv(), lambda observation,key: 0)
    print("rollout returned")
except RuntimeError as e: print("generate_rollout:", e)
