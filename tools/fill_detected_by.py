#!/usr/bin/env python3
"""fill_detected_by.py <seed matrix file>: write the verdict of the final matrix into /verif/seeded/<id>/meta.json (field detected_by)."""
import json, re, sys
for l in open(sys.argv[1]):
    m = re.match(r"(C\d\d-[A-Z]) :(.*)\| undecided:(.*)", l.strip())
    if not m:
        continue
    sid, v, u = m.group(1), m.group(2).split(), m.group(3).split()
    p = f"/verif/seeded/{sid}/meta.json"
    meta = json.load(open(p))
    if v:
        meta["detected_by"] = "VIOLATION (exit 1): " + ", ".join(v) + (f"; undecided (exit 2): {', '.join(u)}" if u else "")
    elif u:
        meta["detected_by"] = "undecided (exit 2): " + ", ".join(u)
    else:
        meta["detected_by"] = "MISSED: no check alarms"
    json.dump(meta, open(p, "w"), indent=1)
print("done")
