#!/usr/bin/env python3
"""keep_seed.py <seed id> <property> <patch> <demo> <needs> <ran> [detected-by]"""
import json, os, shutil, sys
sid, prop, patch, demo, needs, ran = sys.argv[1:7]
det = sys.argv[7] if len(sys.argv) > 7 else ""
d = f"/verif/seeded/{sid}"
os.makedirs(d, exist_ok=True)
shutil.copy(patch, f"{d}/patch.diff")
shutil.copy(demo, f"{d}/demo.py")
json.dump({"id": sid, "breaks_property": prop, "needs_to_manifest": needs, "what_i_ran": ran, "detected_by": det,
           "source": "independent sub-agent given only the property text and a scratch worktree"}, open(f"{d}/meta.json", "w"), indent=1)
print("kept", d)
