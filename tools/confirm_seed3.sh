#!/bin/bash
# usage: confirm_seed3.sh <agent out dir> <set e.g. C01> <variant G|H|I>
#   demo on a clean export of /repo HEAD must exit 0, with the patch applied it must compile and the demo must exit non-zero
#   (the full test-suite with the patch was run by the seeding agent; tools/suite_seed.sh re-runs it here when asked)
O=$1; S=$2; V=$3
P=$O/$V.patch; D=$O/demo_$V.py
W=$(mktemp -d /var/tmp/cf.XXXXXX)
git -C /repo archive HEAD | tar -x -C $W
cd $W
run() { PYTHONPATH=$W JAX_PLATFORMS=cpu timeout 1200 /venv/bin/python "$@"; }
run $D >$W/clean.log 2>&1; c=$?
if ! git apply --check $P 2>/dev/null && ! patch -p1 -s --dry-run < $P >/dev/null 2>&1; then echo "$S-$V PATCH-DOES-NOT-APPLY"; cd /; rm -rf $W; exit; fi
patch -p1 -s < $P >/dev/null 2>&1
run -m compileall -q rl_blox >/dev/null 2>&1; k=$?
run $D >$W/patched.log 2>&1; p=$?
echo "$S-$V clean_exit=$c compile=$k patched_exit=$p :: $(grep -v '^\s*$' $W/patched.log | tail -1 | cut -c1-200)"
cd /; rm -rf $W
