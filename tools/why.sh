#!/bin/bash
# usage: tools/why.sh <patch> <Cxx>...  -> verdict lines of the given checks on a scratch export of /repo HEAD with the patch applied
p=$(readlink -f $1); shift
d=$(mktemp -d /var/tmp/why.XXXXXX)
git -C /repo archive HEAD | tar -x -C $d
(cd $d && patch -p1 -s < $p >/dev/null 2>&1) || echo "PATCH-DOES-NOT-APPLY"
cd /verif
for c in "$@"; do python3-vt -m rlxcheck -p $c --tier quick --no-evidence --repo $d 2>&1 | grep -v "^note:" | tail -${LINES_MAX:-6} | cut -c1-${COLS:-900}; done
rm -rf $d
