#!/usr/bin/env python3-vt
"""Automatic mutation sweep (checker development aid, static: variants are analysed in memory, never executed).

For one property: take the functions its obligations are anchored in (the `site` of every obligation), generate first-order
syntactic mutants inside them (relational / arithmetic operator swaps, constant perturbation, min<->max, argmax<->argmin,
adjacent-argument swaps, same-call name swaps, statement deletion, `not` removal), run the property's check on each variant
through ``Repo(overlay=...)`` and list the *survivors* (variants on which the check reports nothing new).  Survivors are not
verdicts - many are equivalent or outside the property - they are the reading list used to find blind spots.

usage: automutate.py Cxx [--max N] [--jobs J] [--out file.json] [--only substring-of-site]
"""
from __future__ import annotations

import argparse
import ast
import json
import os
import sys
from concurrent.futures import ProcessPoolExecutor

sys.path.insert(0, os.path.dirname(os.path.dirname(os.path.abspath(__file__))))
from rlxcheck.repo import Repo, AnalysisError  # noqa: E402
from rlxcheck.__main__ import run_property  # noqa: E402

SKIP_WORDS = ("logger", "print(", "progress", "bar.", "tqdm", "warnings.", "assert ", "raise ", "verbose", "record_stat", "record_epoch")
CMP = {ast.Lt: "<=", ast.LtE: "<", ast.Gt: ">=", ast.GtE: ">", ast.Eq: "!=", ast.NotEq: "=="}
BIN = {ast.Add: "-", ast.Sub: "+", ast.Mult: "/", ast.Div: "*"}
SWAP_ATTR = {"minimum": "maximum", "maximum": "minimum", "min": "max", "max": "min", "argmax": "argmin", "argmin": "argmax", "sum": "mean", "mean": "sum",
             "ones_like": "zeros_like", "zeros_like": "ones_like", "ones": "zeros", "zeros": "ones", "exp": "log", "floor": "ceil", "ceil": "floor"}


def seg(src_lines, node):
    """(start offset, end offset) of node in the joined source."""
    return node.lineno, node.col_offset, node.end_lineno, node.end_col_offset


def offsets(src):
    offs, o = [0], 0
    for line in src.splitlines(keepends=True):
        o += len(line.encode("utf-8"))
        offs.append(o)
    return offs


def splice(srcb, offs, node, new_text):
    a = offs[node.lineno - 1] + node.col_offset
    b = offs[node.end_lineno - 1] + node.end_col_offset
    return (srcb[:a] + new_text.encode("utf-8") + srcb[b:]).decode("utf-8")


def op_span(srcb, offs, left, right):
    """byte span of the operator text between two operand nodes."""
    a = offs[left.end_lineno - 1] + left.end_col_offset
    b = offs[right.lineno - 1] + right.col_offset
    return a, b


def gen_mutants(relpath, src, fn_nodes):
    srcb = src.encode("utf-8")
    offs = offsets(src)
    out = []

    def add(kind, node, new_src, desc):
        if new_src == src:
            return
        try:
            compile(new_src, relpath, "exec")
        except SyntaxError:
            return
        out.append({"file": relpath, "line": node.lineno, "kind": kind, "desc": desc, "src": new_src})

    for fn in fn_nodes:
        for st in ast.walk(fn):
            if not isinstance(st, ast.stmt) or isinstance(st, (ast.FunctionDef, ast.ClassDef, ast.AsyncFunctionDef)):
                continue
            text = ast.get_source_segment(src, st) or ""
            head = text.split("\n")[0]
            if any(w in head for w in SKIP_WORDS) or (isinstance(st, ast.Expr) and isinstance(st.value, ast.Constant)):
                continue
            # statement deletion (simple statements only)
            if isinstance(st, (ast.Assign, ast.AugAssign, ast.Expr)) and not any(w in text for w in SKIP_WORDS):
                add("del-stmt", st, splice(srcb, offs, st, "pass"), f"delete `{head[:70]}`")
            if isinstance(st, (ast.If, ast.While, ast.For, ast.With, ast.Try)):
                exprs = [st.test] if isinstance(st, (ast.If, ast.While)) else ([st.iter] if isinstance(st, ast.For) else [])
            else:
                exprs = [st]
            for root in exprs:
                for n in ast.walk(root):
                    if isinstance(n, ast.stmt) and n is not root:
                        continue
                    if isinstance(n, ast.Compare) and len(n.ops) == 1 and type(n.ops[0]) in CMP:
                        a, b = op_span(srcb, offs, n.left, n.comparators[0])
                        new = (srcb[:a] + f" {CMP[type(n.ops[0])]} ".encode() + srcb[b:]).decode()
                        add("cmp", n, new, f"`{ast.unparse(n)[:60]}` -> {CMP[type(n.ops[0])]}")
                    elif isinstance(n, ast.BinOp) and type(n.op) in BIN:
                        a, b = op_span(srcb, offs, n.left, n.right)
                        between = srcb[a:b].decode()
                        if "(" in between or ")" in between:
                            continue
                        new = (srcb[:a] + f" {BIN[type(n.op)]} ".encode() + srcb[b:]).decode()
                        add("binop", n, new, f"`{ast.unparse(n)[:60]}` -> {BIN[type(n.op)]}")
                    elif isinstance(n, ast.Constant) and isinstance(n.value, bool):
                        add("const", n, splice(srcb, offs, n, str(not n.value)), f"{n.value} -> {not n.value}")
                    elif isinstance(n, ast.Constant) and isinstance(n.value, (int, float)) and not isinstance(n.value, bool):
                        nv = 1 if n.value == 0 else (0 if n.value == 1 else n.value + 1)
                        add("const", n, splice(srcb, offs, n, repr(nv)), f"{n.value!r} -> {nv!r} in `{head[:50]}`")
                    elif isinstance(n, ast.UnaryOp) and isinstance(n.op, ast.Not):
                        add("not", n, splice(srcb, offs, n, "(" + (ast.get_source_segment(src, n.operand) or "") + ")"), f"drop not in `{ast.unparse(n)[:50]}`")
                    elif isinstance(n, ast.UnaryOp) and isinstance(n.op, ast.USub) and not isinstance(n.operand, ast.Constant):
                        add("neg", n, splice(srcb, offs, n, "(" + (ast.get_source_segment(src, n.operand) or "") + ")"), f"drop minus in `{ast.unparse(n)[:50]}`")
                    elif isinstance(n, ast.Attribute) and n.attr in SWAP_ATTR and isinstance(getattr(n, "ctx", None), ast.Load):
                        seg_ = ast.get_source_segment(src, n) or ""
                        if seg_.endswith(n.attr):
                            add("attr", n, splice(srcb, offs, n, seg_[: -len(n.attr)] + SWAP_ATTR[n.attr]), f"{n.attr} -> {SWAP_ATTR[n.attr]} in `{head[:50]}`")
                    elif isinstance(n, ast.Call):
                        # adjacent positional argument swap
                        for i in range(len(n.args) - 1):
                            x, y = n.args[i], n.args[i + 1]
                            if isinstance(x, ast.Starred) or isinstance(y, ast.Starred):
                                continue
                            sx, sy = ast.get_source_segment(src, x), ast.get_source_segment(src, y)
                            if sx is None or sy is None or sx == sy:
                                continue
                            new = splice(srcb, offs, y, sx)
                            newb = new.encode("utf-8")
                            new = splice(newb, offsets(new), x, sy) if x.end_lineno < y.lineno or True else new
                            add("argswap", n, new, f"swap args {i},{i + 1} of `{ast.unparse(n.func)[:40]}`")
                        # keyword value swap between two Name-valued keywords
                        kws = [k for k in n.keywords if k.arg and isinstance(k.value, ast.Name)]
                        for i in range(len(kws) - 1):
                            x, y = kws[i].value, kws[i + 1].value
                            if x.id == y.id:
                                continue
                            new = splice(srcb, offs, y, x.id)
                            new = splice(new.encode("utf-8"), offsets(new), x, y.id)
                            add("kwswap", n, new, f"swap {kws[i].arg}=/{kws[i + 1].arg}= values in `{ast.unparse(n.func)[:40]}`")
                    elif isinstance(n, ast.Subscript) and isinstance(n.slice, ast.Constant) and isinstance(n.slice.value, int):
                        pass  # covered by const
    # de-duplicate identical sources
    seen, uniq = set(), []
    for m in out:
        h = hash(m["src"])
        if h not in seen:
            seen.add(h)
            uniq.append(m)
    return uniq


ALL = [f"C{i:02d}" for i in range(1, 21)]
_BASE = {}


def _base_ids(pid, root):
    if pid not in _BASE:
        try:
            _BASE[pid] = set(run_property(pid, "quick", Repo(root), quiet=True).result_idents())
        except AnalysisError:
            _BASE[pid] = set()
    return _BASE[pid]


def _run(args):
    pid, root, m = args
    try:
        ck = run_property(pid, "quick", Repo(root, overlay={m["file"]: m["src"]}), quiet=True)
        return "ran", sorted(ck.result_idents())
    except AnalysisError as e:
        return "analysis-error", [str(e)[:200]]
    except Exception as e:  # noqa
        return "crash", [f"{type(e).__name__}: {e}"[:200]]


def _cross(args):
    """Run all other properties on a survivor; returns list of properties that fire / are undecided."""
    own, root, m = args
    repo = Repo(root, overlay={m["file"]: m["src"]})
    fired, undec = [], []
    for pid in ALL:
        if pid == own:
            continue
        try:
            ck = run_property(pid, "quick", repo, quiet=True)
            if set(ck.result_idents()) - _base_ids(pid, root):
                fired.append(pid)
        except AnalysisError:
            undec.append(pid)
        except Exception:
            undec.append(pid + "!")
    return fired, undec


def main():
    ap = argparse.ArgumentParser()
    ap.add_argument("pid")
    ap.add_argument("--repo", default="/repo")
    ap.add_argument("--max", type=int, default=100000)
    ap.add_argument("--jobs", type=int, default=16)
    ap.add_argument("--out")
    ap.add_argument("--only", default="")
    ap.add_argument("--cross", action="store_true", help="run the other 19 checks on survivors and list only what nothing catches")
    a = ap.parse_args()
    repo = Repo(a.repo)
    base = run_property(a.pid, "quick", repo, quiet=True)
    base_ids = set(base.result_idents())
    sites = sorted({o.site for o in base.obs})
    by_file = {}
    for q in sites:
        if a.only and a.only not in q:
            continue
        try:
            fn = repo.func(q)
        except Exception:
            fn = None
        if fn is None:
            # class site: all its methods
            try:
                c = repo.cls(q)
                fns = [x for x in c.body if isinstance(x, ast.FunctionDef)]
                mi = c._module
            except Exception:
                continue
        else:
            fns, mi = [fn], fn._module
        by_file.setdefault(mi.relpath, (mi, []))[1].extend(fns)
    muts = []
    for rel, (mi, fns) in sorted(by_file.items()):
        # drop nested duplicates (a nested def is inside its parent already)
        ids = set()
        top = []
        for f in fns:
            if id(f) in ids:
                continue
            top.append(f)
            for x in ast.walk(f):
                ids.add(id(x))
        src = open(os.path.join(a.repo, rel), encoding="utf-8").read()
        muts += gen_mutants(rel, src, top)
    muts = muts[: a.max]
    work = [(a.pid, a.repo, m) for m in muts]
    res = []
    with ProcessPoolExecutor(max_workers=a.jobs) as ex:
        for m, (st, ids) in zip(muts, ex.map(_run, work, chunksize=4)):
            new = [i for i in ids if tuple(i) not in base_ids] if st == "ran" else ids
            res.append({"file": m["file"], "line": m["line"], "kind": m["kind"], "desc": m["desc"], "status": st, "fired": bool(st == "ran" and new), "new": new[:2]})
    if a.cross:
        surv = [(i, m) for i, (m, r) in enumerate(zip(muts, res)) if not r["fired"]]
        with ProcessPoolExecutor(max_workers=a.jobs) as ex:
            for (i, m), (f_, u_) in zip(surv, ex.map(_cross, [(a.pid, a.repo, m) for _, m in surv], chunksize=2)):
                res[i]["other_fired"] = f_
                res[i]["other_undecided"] = u_
    fired = sum(r["fired"] for r in res)
    err = sum(r["status"] != "ran" for r in res)
    print(f"{a.pid}: sites={len(sites)} mutants={len(res)} fired={fired} undecided={err} survived={len(res) - fired - err}")
    if a.cross:
        n_other = sum(1 for r in res if not r["fired"] and r.get("other_fired"))
        print(f"  caught by another property: {n_other}; caught by nothing: {sum(1 for r in res if not r['fired'] and not r.get('other_fired'))}")
    for r in res:
        if not r["fired"]:
            if a.cross and r.get("other_fired"):
                continue
            tag = "SURV" if r["status"] == "ran" else "UNDEC"
            if a.cross and r.get("other_undecided"):
                tag += "(undec:" + ",".join(r["other_undecided"]) + ")"
            print(f"  {tag} {r['file']}:{r['line']} [{r['kind']}] {r['desc']}" + (f"  :: {r['new'][0][:110]}" if tag == "UNDEC" and r["new"] else ""))
    if a.out:
        with open(a.out, "w") as fh:
            json.dump(res, fh, indent=1)


if __name__ == "__main__":
    main()
