#!/bin/bash
# usage: tools/undecided_reasons.sh <matrix file> <dir prefix for patches: e.g. /tmp>  -> prints "<patch> <check>: <reason>" for every undecided pair
cd /verif
m=$1
one() {
  line="$1"
  p=$(echo "$line" | cut -d' ' -f1)            # wb-C01/R2.patch
  und=$(echo "$line" | sed 's/.*undecided://')
  [ -z "$(echo $und | tr -d ' ')" ] && return
  set=$(dirname $p); f=$(basename $p)
  d=$(mktemp -d /var/tmp/ur.XXXXXX)
  git -C /repo archive HEAD | tar -x -C $d
  (cd $d && patch -p1 -s < /tmp/$set/out/$f >/dev/null 2>&1)
  for c in $und; do
    python3-vt -m rlxcheck -p $c --tier quick --no-evidence --repo $d 2>&1 | grep "^ANALYSIS-ERROR\|^note: analysis incomplete" | sed "s/^ANALYSIS-ERROR property=C[0-9]* //; s/^note: analysis incomplete (rule group undecided): //" | tr ';' '\n' | sed "s#^#$p $c: #" | cut -c1-260
  done
  rm -rf $d
}
export -f one
grep "undecided: C" $m | xargs -P 16 -d '\n' -I{} bash -c 'one "{}"' | sort
