#!/bin/bash
# usage: tools/patch_matrix.sh <patch file> ...   -> per patch: checks reporting VIOLATION / undecided (all 20 quick checks on a scratch export of /repo HEAD)
cd /verif
one() {
  p=$(readlink -f $1); d=$(mktemp -d /var/tmp/pm.XXXXXX)
  git -C /repo archive HEAD | tar -x -C $d
  if ! (cd $d && patch -p1 -s < $p >/dev/null 2>&1); then echo "$p : PATCH-DOES-NOT-APPLY"; rm -rf $d; return; fi
  v=""; u=""
  for i in $(seq -w 1 20); do
    out=$(python3-vt -m rlxcheck -p C$i --tier quick --no-evidence --repo $d 2>&1)
    if echo "$out" | grep -q "^VIOLATION"; then v="$v C$i"; elif echo "$out" | grep -q "^ANALYSIS-ERROR"; then u="$u C$i"; fi
  done
  echo "$p : VIOLATION:$v | undecided:$u"
  rm -rf $d
}
export -f one
printf "%s\n" "$@" | xargs -P ${JOBS:-16} -I{} bash -c 'one {}' | sort
