#!/bin/bash
# usage: tools/audit_check.sh Cxx [jobs]  - everything that validates ONE property check after a rule change:
#   1. thorough tier on /repo (self-test overlays: mutants must fire, benign overlays must stay silent)
#   2. every stored seeded breaking change (/verif/seeded/*) against this check only: which are detected / undecided
#   3. every behaviour-preserving patch of the three benign batches (/verif/benign/<batch>/<Cxx>/R*.patch) against this check only: any
#      VIOLATION is a FALSE ALARM and must be fixed in the rule (never by matching the patch)
P=$1; J=${2:-6}
cd /verif
echo "== thorough"; python3-vt -m rlxcheck -p $P --tier thorough --no-evidence 2>&1 | grep -v conda | grep "^OK\|^VIOLATION\|^ANALYSIS\|^selftest\|SELFTEST" | cut -c1-300
one() {
  P=$1; kind=$2; p=$3; d=$(mktemp -d /var/tmp/ac.XXXXXX)
  git -C /repo archive HEAD | tar -x -C $d
  if ! (cd $d && patch -p1 -s < $p >/dev/null 2>&1); then rm -rf $d; return; fi
  out=$(python3-vt -m rlxcheck -p $P --tier quick --no-evidence --repo $d 2>&1)
  r=ok; if echo "$out" | grep -q "^VIOLATION"; then r=VIOLATION; elif echo "$out" | grep -q "^ANALYSIS-ERROR"; then r=undecided; fi
  echo "$kind $p $r"
  rm -rf $d
}
export -f one
( for s in seeded/*/patch.diff; do echo "seed $(readlink -f $s)"; done; for p in /verif/benign/*/*/R*.patch; do echo "benign $p"; done ) | xargs -P $J -L1 bash -c 'one '$P' $0 $1' > /var/tmp/audit_$P.txt 2>&1
echo "== seeds detected by $P:"; grep "^seed .* VIOLATION" /var/tmp/audit_$P.txt | sed 's#.*/seeded/\([^/]*\)/.*#\1#' | sort | tr '\n' ' '; echo
echo "== seeds undecided for $P:"; grep "^seed .* undecided" /var/tmp/audit_$P.txt | sed 's#.*/seeded/\([^/]*\)/.*#\1#' | sort | tr '\n' ' '; echo
echo "== FALSE ALARMS (benign patches with VIOLATION):"; grep "^benign .* VIOLATION" /var/tmp/audit_$P.txt | awk '{print $2}'
echo "== benign undecided: $(grep -c '^benign .* undecided' /var/tmp/audit_$P.txt) of $(grep -c '^benign' /var/tmp/audit_$P.txt)"
