#!/usr/bin/env python3-vt
"""Dev aid: print a function after helper expansion.  usage: show_expanded.py <patch or -> <qual>"""
import sys, os, subprocess, tempfile, shutil, ast
sys.path.insert(0, '/verif')
from rlxcheck.repo import Repo
patch, qual = sys.argv[1], sys.argv[2]
d = tempfile.mkdtemp(dir='/var/tmp')
subprocess.run(f"git -C /repo archive HEAD | tar -x -C {d}", shell=True, check=True)
if patch != '-':
    subprocess.run(f"cd {d} && patch -p1 -s < {os.path.abspath(patch)}", shell=True, check=True)
r = Repo(d)
print("inlined:", r.inlined)
mi, node = r.lookup(qual)
print(ast.unparse(node))
shutil.rmtree(d)
