#!/usr/bin/env python3
"""Print python files with docstrings elided (line numbers kept). Dev aid only."""
import ast, sys
for path in sys.argv[1:]:
    src = open(path).read()
    tree = ast.parse(src)
    skip = set()
    for n in ast.walk(tree):
        if isinstance(n, (ast.FunctionDef, ast.ClassDef, ast.AsyncFunctionDef, ast.Module)):
            b = n.body
            if b and isinstance(b[0], ast.Expr) and isinstance(b[0].value, ast.Constant) and isinstance(b[0].value.value, str):
                d = b[0]
                if d.end_lineno - d.lineno >= 2:
                    skip.update(range(d.lineno + 1, d.end_lineno + 1))
    print(f"##### {path}")
    for i, line in enumerate(src.splitlines(), 1):
        if i in skip:
            continue
        if not line.strip():
            continue
        print(f"{i}\t{line}")
