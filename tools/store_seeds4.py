#!/usr/bin/env python3
"""store_seeds3.py <needs.json> <confirm log ...>: keep the confirmed batch-4 seeds (J/K/L) of /var/tmp/ws4-Cxx/out under /verif/seeded."""
import json, os, re, shutil, sys
needs = json.load(open(sys.argv[1]))
conf = {}
for f in sys.argv[2:]:
    for l in open(f):
        m = re.match(r"(C\d\d-[JKL]) clean_exit=(\d+) compile=(\d+) patched_exit=(\d+)", l)
        if m:
            conf[m.group(1)] = tuple(int(x) for x in m.groups()[1:])
for sid, need in sorted(needs.items()):
    c = conf.get(sid)
    if c is None or c[0] != 0 or c[1] != 0 or c[2] == 0:
        print("NOT CONFIRMED", sid, c)
        continue
    prop, v = sid.split("-")
    o = f"/var/tmp/ws4-{prop}/out"
    d = f"/verif/seeded/{sid}"
    os.makedirs(d, exist_ok=True)
    shutil.copy(f"{o}/{v}.patch", f"{d}/patch.diff")
    shutil.copy(f"{o}/demo_{v}.py", f"{d}/demo.py")
    meta = {"id": sid, "breaks_property": prop, "needs_to_manifest": need,
            "what_i_ran": "tools/confirm_seed3.sh on an export of /repo HEAD: demo exits 0 on the clean tree, patch applies and compiles, demo exits non-zero with the patch; "
                          "the seeding agent ran the unedited test-suite with the patch (31 passed; runs that hit the 900 s pytest timeout of tests/test_cmaes.py under machine load were repeated)",
            "detected_by": "", "source": "independent sub-agent given only the property text and a scratch worktree (batch 4)"}
    json.dump(meta, open(f"{d}/meta.json", "w"), indent=1)
    print("kept", sid)
