#!/bin/bash
# usage: confirm_seed2.sh <set e.g. C01> <variant D|E|F>   -- demo on a clean export passes, with the patch applied fails (tests were run by the seeding agent)
S=$1; V=$2
P=/tmp/ws-$S/out/$V.patch; D=/tmp/ws-$S/out/demo_$V.py
W=$(mktemp -d /var/tmp/cf.XXXXXX)
git -C /repo archive HEAD | tar -x -C $W
cd $W
run() { PYTHONPATH=$W JAX_PLATFORMS=cpu timeout 600 /venv/bin/python "$@"; }
run $D >$W/clean.log 2>&1; c=$?
if ! patch -p1 -s < $P >/dev/null 2>&1; then echo "$S-$V PATCH-DOES-NOT-APPLY"; rm -rf $W; exit; fi
run -m compileall -q rl_blox >/dev/null 2>&1; k=$?
run $D >$W/patched.log 2>&1; p=$?
echo "$S-$V clean_exit=$c compile=$k patched_exit=$p :: $(tail -1 $W/patched.log | cut -c1-160)"
rm -rf $W
