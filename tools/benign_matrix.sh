#!/bin/bash
# usage: tools/benign_matrix.sh <dir-with-R*.patch> ...   -> per patch: checks that raise VIOLATION (false alarms) / are undecided
cd /verif
one() {
  p=$1; d=$(mktemp -d /var/tmp/bm.XXXXXX)
  git -C /repo archive HEAD | tar -x -C $d
  if ! (cd $d && patch -p1 -s < $p >/dev/null 2>&1); then echo "$p : PATCH-DOES-NOT-APPLY"; rm -rf $d; return; fi
  v=""; u=""
  for i in $(seq -w 1 20); do
    out=$(python3-vt -m rlxcheck -p C$i --tier quick --no-evidence --repo $d 2>&1)
    if echo "$out" | grep -q "^VIOLATION"; then v="$v C$i"; elif echo "$out" | grep -q "^ANALYSIS-ERROR"; then u="$u C$i"; fi
  done
  echo "$(basename $(dirname $(dirname $p)))/$(basename $p) : FALSE-ALARM:$v | undecided:$u"
  rm -rf $d
}
export -f one
for d in "$@"; do ls $d/R*.patch; done | xargs -P ${JOBS:-16} -I{} bash -c 'one {}' | sort
