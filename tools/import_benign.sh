#!/bin/bash
# usage: tools/import_benign.sh <batch e.g. b5> <Cxx> <agent out dir>  -- copy R*.patch, probe.py, NOTES.md into /verif/benign/<batch>/<Cxx>/ (kept under git:
# earlier corpora lived in /tmp and were lost)
B=$1; S=$2; O=$3
mkdir -p /verif/benign/$B/$S
cp $O/R*.patch /verif/benign/$B/$S/ 2>/dev/null
for f in probe.py NOTES.md; do [ -f $O/$f ] && cp $O/$f /verif/benign/$B/$S/; done
ls /verif/benign/$B/$S | tr '\n' ' '; echo
