#!/bin/bash
# Re-run every stored seeded change against all 20 checks (quick tier) on scratch copies of /repo HEAD.
# usage: tools/seed_matrix.sh [seed-id ...]   -> prints "<seed> : <properties that report VIOLATION> | undecided: <...>"
cd /verif
W=/var/tmp/seedmatrix; rm -rf $W; mkdir -p $W
seeds=${@:-$(ls seeded)}
one() {
  s=$1; d=$W/$s; mkdir -p $d
  git -C /repo archive HEAD | tar -x -C $d
  if ! (cd $d && patch -p1 -s < /verif/seeded/$s/patch.diff >/dev/null 2>&1); then echo "$s : PATCH-DOES-NOT-APPLY"; rm -rf $d; return; fi
  v=""; u=""
  for i in $(seq -w 1 20); do
    out=$(python3-vt -m rlxcheck -p C$i --tier quick --no-evidence --repo $d 2>&1)
    if echo "$out" | grep -q "^VIOLATION"; then v="$v C$i"; elif echo "$out" | grep -q "^ANALYSIS-ERROR"; then u="$u C$i"; fi
  done
  echo "$s :$v | undecided:$u"
  rm -rf $d
}
export -f one; export W
printf "%s\n" $seeds | xargs -P 16 -I{} bash -c 'one {}' | sort
rm -rf $W
