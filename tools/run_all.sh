#!/bin/bash
# run all 20 checks at a tier in parallel; print summary lines
tier=${1:-quick}; shift
cd /verif
for i in $(seq -w 1 20); do
  ( python3-vt -m rlxcheck -p C$i --tier $tier --no-evidence "$@" 2>&1 | grep -v conda | grep -v "^KNOWN-FINDING" | grep "^OK\|^VIOL\|ANALYSIS\|selftest\|MISMATCH" | sed "s/^/C$i: /" ) &
done
wait
