#!/bin/bash
# usage: confirm_seed.sh <patch> <demo.py> "<test files>"   -- confirms a seeded change in a scratch worktree of /repo HEAD
set -u
PATCH=$1; DEMO=$2; TESTS=${3:-}
WT=/tmp/wt-confirm
git -C /repo worktree remove --force $WT >/dev/null 2>&1
git -C /repo worktree add --detach $WT HEAD -q || exit 9
cd $WT
run() { PYTHONPATH=$WT JAX_PLATFORMS=cpu timeout 900 /venv/bin/python "$@"; }
echo "== demo on clean HEAD (expect pass)"; run $DEMO >/tmp/confirm_clean.log 2>&1; echo "exit=$?"
if ! git apply --check $PATCH 2>/dev/null; then echo "PATCH DOES NOT APPLY"; git -C /repo worktree remove --force $WT; exit 3; fi
git apply $PATCH
echo "== compile"; run -m compileall -q rl_blox >/dev/null; echo "exit=$?"
if [ -n "$TESTS" ]; then echo "== tests with patch: $TESTS"; run -m pytest -q -p no:cacheprovider --timeout=900 $TESTS 2>&1 | tail -2; fi
echo "== demo with patch (expect FAIL)"; run $DEMO >/tmp/confirm_patched.log 2>&1; echo "exit=$?"; tail -3 /tmp/confirm_patched.log
cd /; git -C /repo worktree remove --force $WT
