#!/usr/bin/env python3-vt
"""Dev aid: list the obligations of one property whose rule/key contains a substring.  usage: show_obs.py C11 budget-exact [repo]"""
import sys
sys.path.insert(0, '/verif')
from rlxcheck.__main__ import run_property
from rlxcheck.repo import Repo
pid, sub = sys.argv[1], sys.argv[2] if len(sys.argv) > 2 else ""
ck = run_property(pid, 'quick', Repo(sys.argv[3] if len(sys.argv) > 3 else '/repo'), quiet=True)
for o in ck.obs:
    if sub in o.key or sub in o.rule:
        print("OK " if o.ok else "BAD", o.rule, o.site.split('.', 2)[-1], o.key, '|', o.construct[:160])
