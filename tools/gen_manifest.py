#!/usr/bin/env python3
"""Regenerate /verif/MANIFEST.json from the table below (kept in one place so it stays valid)."""
import importlib
import json
import os
import sys

HERE = os.path.dirname(os.path.abspath(__file__))
VERIF = os.path.dirname(HERE)
sys.path.insert(0, VERIF)

ALL = [f"C{i:02d}" for i in range(1, 21)]

# property -> (technique, level text, level note, design ref)
CLAIMED = {}
NOT_APPLICABLE = {}


def load():
    from rlxcheck import registry
    CLAIMED.update(registry.CLAIMED)
    NOT_APPLICABLE.update(registry.NOT_APPLICABLE)


def main():
    load()
    checks = []
    for pid in ALL:
        if pid not in CLAIMED:
            continue
        c = CLAIMED[pid]
        checks.append({
            "property_id": pid,
            "quick_cmd": f"python3-vt -m rlxcheck --property {pid} --tier quick",
            "thorough_cmd": f"python3-vt -m rlxcheck --property {pid} --tier thorough",
            "evidence_file": f"/verif/evidence/{pid}.json",
            "replay_cmd_template": "python3-vt -m rlxcheck --explain {path}",
            "engine": "rlxcheck",
            "level_claimed": {"category": "other", "text": c["level"], "design_ref": c.get("design_ref", f"DESIGN.md section 8 ({pid})")},
            "level_note": c["note"],
            "technique": c["technique"],
        })
    na = [{"property_id": pid, "reason": NOT_APPLICABLE.get(pid, "check not built yet")} for pid in ALL if pid not in CLAIMED]
    man = {
        "version": 1,
        "setup_cmd": "python3-vt -m compileall -q rlxcheck",
        "hooks": {
            "guard": "RL_BLOX_VERIF",
            "enable": "none needed: the checks are static (ast / CFG / dataflow over /repo's working tree); no instrumentation exists in /repo",
            "baseline_off_cmd": "cd /repo && /venv/bin/python -m pytest -ra -q -p no:cacheprovider --timeout=900 --continue-on-collection-errors",
            "source_commits": [],
            "add_only": True,
        },
        "engines": [{
            "name": "rlxcheck",
            "path": "/verif/rlxcheck",
            "serves_properties": [c["property_id"] for c in checks],
            "kind_free_text": "repository-specific static analyser: resolved module table, statement CFG + reaching definitions + "
                              "(post)dominators, path-sensitive path search, polynomial normal forms with def-use and callee inlining, "
                              "gradient-dependence tracking, effect/ownership summaries, symbolic shapes; pure python3-vt (ast + networkx), "
                              "never imports or runs rl_blox",
        }],
        "checks": checks,
        "notes": "Static analysis only. Exit 0 = all obligations discharged (KNOWN-FINDING lines for entries of known_findings.txt); "
                 "exit 1 + VIOLATION line = unlisted violation; exit 2 + ANALYSIS-ERROR = the analysis cannot decide this tree "
                 "(anchor vanished / instance floor missed / unrecognised idiom). Thorough tier additionally runs the in-memory "
                 "mutant/benign self-validation of the property's rules on 16 cores.",
        "not_applicable": na,
    }
    with open(os.path.join(VERIF, "MANIFEST.json"), "w") as fh:
        json.dump(man, fh, indent=1)
        fh.write("\n")
    try:
        import jsonschema
        jsonschema.validate(man, json.load(open("/root/.vp/MANIFEST.schema.json")))
        print("MANIFEST.json valid;", len(checks), "checks,", len(na), "not_applicable")
    except ImportError:
        print("written (jsonschema not available for validation)")


if __name__ == "__main__":
    main()
