#!/bin/bash
# usage: tools/try_patch.sh <patch> [Cxx ...]  - apply the patch to a scratch export of /repo HEAD (never to /repo) and run checks (quick, no evidence)
p=$(readlink -f $1); shift
props=${@:-$(seq -f "C%02g" 1 20)}
d=$(mktemp -d /var/tmp/trypatch.XXXXXX)
git -C /repo archive HEAD | tar -x -C $d
if ! (cd $d && patch -p1 -s < $p >/dev/null 2>&1); then echo "PATCH-DOES-NOT-APPLY $p"; rm -rf $d; exit 3; fi
cd /verif
for q in $props; do
  ( python3-vt -m rlxcheck -p $q --tier quick --no-evidence --repo $d 2>&1 | grep -v "conda\|^KNOWN-FINDING" | grep -A3 "^VIOLATION\|^ANALYSIS\|^note: analysis" | grep -v "^VIOLATION property" | sed "s/^/$q: /" | cut -c1-${COLS:-400} ) &
done
wait
rm -rf $d
