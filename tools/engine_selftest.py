#!/usr/bin/env python3-vt
"""Tiny positive / negative examples for engine behaviour that no property overlay pins directly.
usage: cd /verif && python3-vt tools/engine_selftest.py      (exit 0 = all as expected)

1. cfg.propagate: a path literal is dropped when the field / element it reads is stored in place between two tests of the same
   condition, and survives when the store cannot change it (`b is None`, `len(b)` after an element store).
"""
import ast
import sys

sys.path.insert(0, "/verif")
from rlxcheck.cfg import CFG  # noqa: E402

CASES = [
    # (source, assumed literals, a path entry -> exit that avoids `sync()` must exist?)
    ("def f(self):\n    if self.t > 3:\n        a()\n    self.t += 1\n    if self.t > 3:\n        sync()\n    return 1\n", {"self.t > 3": True}, True),
    ("def f(buf):\n    buf.size = 0\n    if buf.size > 3:\n        sync()\n    return 1\n", {"buf.size > 3": True}, True),
    ("def f(mask, i):\n    mask[i] = 0\n    if mask[i] > 0:\n        sync()\n    return 1\n", {"mask[i] > 0": True}, True),
    ("def f(mask, i):\n    mask[i] = 0\n    if mask.any():\n        sync()\n    return 1\n", {"mask.any()": True}, True),
    # the store cannot change these: the literal survives and the path around sync() stays infeasible
    ("def f(mask, i):\n    mask[i] = 0\n    if mask is None:\n        return 0\n    sync()\n    return 1\n", {"mask is None": False}, False),
    ("def f(mask, i):\n    mask[i] = 0\n    if len(mask) > 0:\n        sync()\n    return 1\n", {"len(mask) > 0": True}, False),
    ("def f(buf, other):\n    other.size = 0\n    if buf.size > 3:\n        sync()\n    return 1\n", {"buf.size > 3": True}, False),
    # rebinding a name still drops the literal
    ("def f(n):\n    n = g()\n    if n > 3:\n        sync()\n    return 1\n", {"n > 3": True}, True),
]


def main() -> int:
    bad = 0
    for k, (src, assume, want) in enumerate(CASES):
        c = CFG(ast.parse(src).body[0])
        sync = {n.id for n in c.nodes if n.ast is not None and n.kind == "stmt" and "sync()" in ast.unparse(n.ast)}
        got = c.paths_avoiding(c.entry, c.exit, sync, assume=assume) is not None
        ok = got == want
        bad += not ok
        print(f"case {k}: path around sync() {'found' if got else 'none'} - {'as expected' if ok else 'UNEXPECTED'}")
    print("engine selftest:", "OK" if not bad else f"{bad} UNEXPECTED")
    return 1 if bad else 0


if __name__ == "__main__":
    sys.exit(main())
