#!/bin/bash
# usage: try_seed.sh <patch> <prop...>  -- apply to /repo, run quick checks, undo
PATCH=$1; shift
cd /repo || exit 9
if ! git apply --check "$PATCH" 2>/dev/null; then echo "PATCH DOES NOT APPLY to /repo HEAD"; exit 3; fi
git apply "$PATCH"
for p in "$@"; do (cd /verif && python3-vt -m rlxcheck -p $p --no-evidence 2>&1 | grep -v conda | grep -E "^(VIOLATION|OK|ANALYSIS|KNOWN|  rl_blox|    reason)" | head -${LINES_MAX:-9}); done
git checkout -- .
